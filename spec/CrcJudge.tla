------------------------------ MODULE CrcJudge ------------------------------
(* C12, first sentence.  Input: mutated messages as the real decoder saw them,    *)
(* [msg: bytes of crc field + body, outcome: what the decoder did with it].       *)
(* The specification's own CRC decides what had to happen: if the stored checksum *)
(* does not match the body, the only acceptable outcome is a checksum error.      *)
EXTENDS CRC32, Json, IOUtils, TLCExt, TLC
Traces == JsonDeserialize(IOEnv.TRACE_FILE)
VARIABLES tid, l, viol, drift
TInit == tid \in DOMAIN Traces /\ l = 1 /\ viol = {} /\ drift = {}
Stored(m) == <<m[1] * 256 + m[2], m[3] * 256 + m[4]>>
TNext ==
    /\ l <= Len(Traces[tid])
    /\ LET rec == Traces[tid][l]
           good == Crc32(SubSeq(rec.msg, 5, Len(rec.msg))) = Stored(rec.msg)
       IN /\ viol' = viol \cup (IF ~good /\ rec.outcome # "checksum" THEN {<<"C12.crc_detects", l>>} ELSE {})
          /\ drift' = drift \cup (IF good /\ rec.outcome = "checksum" THEN {<<"rejected_valid", l>>} ELSE {})
          /\ l' = l + 1 /\ tid' = tid
TSpec == TInit /\ [][TNext]_<<tid, l, viol, drift>>
Report == l > Len(Traces[tid]) => PrintT(<<"RESULT", tid, l - 1, viol, drift>>)
=============================================================================
