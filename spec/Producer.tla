------------------------------ MODULE Producer ------------------------------
(***************************************************************************)
(* afkak's Producer: batching, partition lookup, produce attempts and      *)
(* retries, cancellation, stop.  Properties C01, C09, C19.                 *)
(*                                                                         *)
(* The producer's environment is the application (send / cancel / stop),   *)
(* the reactor's timers, and the KafkaClient it drives; the client is held *)
(* to its own contract by ClientRouting (C07, C08).  One action = one of   *)
(*   Send, Cancel, Stop                 application calls                  *)
(*   Tick, MetaRetry, RetryFire         timers                             *)
(*   MetaDone, ProduceDone              a client call completes            *)
(* with all synchronous consequences.  What an event makes observable is a *)
(* sequence of actions                                                     *)
(*   <<"meta", topic>>          load_metadata_for_topics(topic)            *)
(*   <<"produce", payloads>>    send_produce_request; payloads is a seq of *)
(*                              <<topic, partition, <<sid, ...>>>>         *)
(*   <<"fire", sid, "ok"|"fail">>                                          *)
(*   <<"timer", delay>>, <<"tcancel">>, <<"reset", topic>>                 *)
(*                                                                         *)
(* Inputs that the environment decides are event parameters: `known` (the  *)
(* topics whose metadata the client has, as read in this event) and        *)
(* `assign` (the partition the partitioner picked for each send that was   *)
(* partitioned in this event).                                             *)
(***************************************************************************)
EXTENDS Naturals, Integers, Sequences, FiniteSets, TLC

CONSTANTS Sids,         \* send ids
          TopicOf,      \* sid -> topic
          CntOf,        \* sid -> number of messages
          BytesOf,      \* sid -> bytes of non-null messages
          BatchN, BatchB, BatchT,   \* thresholds (0: disabled); BatchT 0: no time limit
          MaxAttempts, Acks,
          RetryDelays,  \* <<d1, d2, ...>> microseconds: the k-th consecutive retry delay
          PartsOf,      \* topic -> set of partitions (for the design model's choices)
          MaxDepth

Range(f) == {f[i] : i \in DOMAIN f}
SeqToSet(q) == {q[i] : i \in DOMAIN q}

InitState ==
    [ q |-> <<>>, cnt |-> 0, bytes |-> 0,
      st |-> [i \in Sids |-> "new"],          \* new | queued | batch | done
      active |-> FALSE,                       \* a batch is being processed (_batch_send_d)
      reqs |-> <<>>,                          \* sends of the batch in flight, in order
      waiting |-> {},                         \* sends of the batch whose partition lookup is unresolved
      wtimer |-> {},                          \* ... those of them that wait for their retry timer (the others: for a metadata load)
      part |-> [i \in Sids |-> -2],           \* -2 unresolved, -1 lookup failed, else partition
      phase |-> "idle",                       \* idle | part | sent | retry
      pay |-> <<>>,                           \* payloads of the batch: <<topic, partition, <<sids>>>>, creation order
      retry |-> <<>>,                         \* payloads (indexes into pay) awaiting the retry timer
      attempts |-> 0, ridx |-> 0, stopped |-> FALSE,
      kn |-> {},                              \* environment: topics whose metadata the client holds
      armedFail |-> FALSE,                    \* environment: the next produce call fails at once
      pa |-> [i \in Sids |-> 0] ]             \* environment: the partition the partitioner picks for each send

Ev(a, sid, x) == [a |-> a, sid |-> sid, x |-> x, res |-> <<>>]
Delay(k) == RetryDelays[IF k <= Len(RetryDelays) THEN k ELSE Len(RetryDelays)]

\* st = [s, out]: out is the sequence of actions
Act(st, a) == [s |-> st.s, out |-> Append(st.out, a)]
FireAll(st, sids, how) ==
    LET RECURSIVE Go(_, _)
        Go(x, k) == IF k > Len(sids) THEN x
                    ELSE IF x.s.st[sids[k]] = "done" THEN Go(x, k + 1)
                    ELSE Go([s |-> [x.s EXCEPT !.st[sids[k]] = "done"], out |-> Append(x.out, <<"fire", sids[k], how>>)], k + 1)
    IN Go(st, 1)

\* --- partition lookup of one send (one pass through the loop of _next_partition)
Lookup(st, sid, e) ==
    LET s == st.s t == TopicOf[sid] IN
    IF t \in s.kn
    THEN [s |-> [s EXCEPT !.part[sid] = s.pa[sid], !.waiting = @ \ {sid}, !.wtimer = @ \ {sid}], out |-> st.out]
    ELSE IF s.attempts >= MaxAttempts
    THEN [s |-> [s EXCEPT !.part[sid] = -1, !.waiting = @ \ {sid}, !.wtimer = @ \ {sid}], out |-> st.out]
    ELSE Act([s |-> [s EXCEPT !.waiting = @ \cup {sid}, !.wtimer = @ \ {sid}], out |-> st.out], <<"meta", TopicOf[sid]>>)

\* --- all lookups resolved: build payloads and send (or finish if nothing is left)
RECURSIVE SendBatch(_, _), HandleResult(_, _)
\* a produce call was just made.  When the environment armed it, the client fails the call at once (the Deferred it
\* returns has already failed): the outcome is handled inside the same event.
FailedAtOnce == [kind |-> "kafka", codes |-> <<>>]
AfterProduce(st, e) ==
    IF st.s.armedFail THEN HandleResult([s |-> [st.s EXCEPT !.armedFail = FALSE], out |-> st.out], [e EXCEPT !.res = FailedAtOnce])
    ELSE st
Complete(st, e) ==
    \* _complete_batch_send then _check_send_batch
    LET s1 == [st.s EXCEPT !.active = FALSE, !.phase = "idle", !.attempts = 0, !.ridx = 0, !.reqs = <<>>, !.pay = <<>>,
                           !.retry = <<>>, !.waiting = {}, !.wtimer = {}]
        x == [s |-> s1, out |-> st.out]
    IN IF (BatchN # 0 /\ BatchN <= s1.cnt) \/ (BatchB # 0 /\ BatchB <= s1.bytes) THEN SendBatch(x, e) ELSE x

SendRequests(st, e) ==
    LET s == st.s
        live == SelectSeq(s.reqs, LAMBDA i : s.st[i] # "done")
        failed == SelectSeq(live, LAMBDA i : s.part[i] = -1)
        good == SelectSeq(live, LAMBDA i : s.part[i] >= 0)
        \* payloads in order of first appearance of each topic-partition
        key(i) == <<TopicOf[i], s.part[i]>>
        firsts == SelectSeq(good, LAMBDA i : \A j \in SeqToSet(good) : key(j) = key(i) =>
                      (CHOOSE a \in DOMAIN good : good[a] = i) <= (CHOOSE b \in DOMAIN good : good[b] = j))
        pay == [k \in DOMAIN firsts |-> <<TopicOf[firsts[k]], s.part[firsts[k]], SelectSeq(good, LAMBDA j : key(j) = key(firsts[k]))>>]
        x1 == FireAll(st, failed, "fail")
    IN IF pay = <<>> THEN Complete(x1, e)
       ELSE AfterProduce(Act([s |-> [x1.s EXCEPT !.pay = pay, !.phase = "sent", !.attempts = @ + 1], out |-> x1.out], <<"produce", pay>>), e)

SendBatch(st, e) ==
    LET s == st.s IN
    IF s.q = <<>> \/ s.active THEN st
    ELSE LET s1 == [s EXCEPT !.reqs = s.q, !.q = <<>>, !.cnt = 0, !.bytes = 0, !.active = TRUE, !.phase = "part",
                             !.st = [i \in Sids |-> IF i \in SeqToSet(s.q) THEN "batch" ELSE @[i]],
                             !.part = [i \in Sids |-> IF i \in SeqToSet(s.q) THEN -2 ELSE @[i]], !.waiting = {}, !.wtimer = {}]
             RECURSIVE Each(_, _)
             Each(x, k) == IF k > Len(s1.reqs) THEN x ELSE Each(Lookup(x, s1.reqs[k], e), k + 1)
             x2 == Each([s |-> s1, out |-> st.out], 1)
         IN IF x2.s.waiting = {} THEN SendRequests(x2, e) ELSE x2

CheckSend(st, e) ==
    IF (BatchN # 0 /\ BatchN <= st.s.cnt) \/ (BatchB # 0 /\ BatchB <= st.s.bytes) THEN SendBatch(st, e) ELSE st

\* --- outcome of a produce call.  res: [kind, codes (seq aligned with the payloads sent: 0 ok, >0 broker error,
\*     -1 failed to send), ...]   kind: "resp" | "empty" | "kafka" | "other" | "cancelled"
SentIdx(s) == IF s.retry = <<>> THEN [k \in DOMAIN s.pay |-> k] ELSE s.retry
HandleResult(st, e) ==
    LET s == st.s
        idx == SentIdx(s)                       \* payload indexes that were in the request
        sidsOf(ks) == LET RECURSIVE Cat(_)
                          Cat(q) == IF q = <<>> THEN <<>> ELSE s.pay[Head(q)][3] \o Cat(Tail(q))
                      IN Cat(ks)
        r == e.res
    IN
    IF r.kind = "empty"
    THEN Complete(FireAll(st, sidsOf([k \in DOMAIN s.pay |-> k]), IF Acks = 0 THEN "ok" ELSE "fail"), e)
    ELSE IF r.kind \in {"other", "cancelled"}
    THEN Complete(FireAll(st, sidsOf([k \in DOMAIN s.pay |-> k]), "fail"), e)
    ELSE LET codes == IF r.kind = "kafka" THEN [k \in DOMAIN idx |-> -1] ELSE r.codes
             okIdx == SelectSeq([k \in DOMAIN idx |-> k], LAMBDA k : codes[k] = 0)
             badIdx == SelectSeq([k \in DOMAIN idx |-> k], LAMBDA k : codes[k] # 0)
             \* failed-to-send payloads first, then those answered with an error code, as the producer lists them
             notSent == SelectSeq(badIdx, LAMBDA k : codes[k] < 0)
             errored == SelectSeq(badIdx, LAMBDA k : codes[k] > 0)
             \* (when the request failed as a whole the producer lists its payloads in creation order)
             Sorted(S) == LET RECURSIVE Srt(_) Srt(T) == IF T = {} THEN <<>> ELSE LET m == CHOOSE x \in T : \A y \in T : x <= y IN <<m>> \o Srt(T \ {m}) IN Srt(S)
             bad == IF r.kind = "kafka" THEN Sorted(SeqToSet(idx))
                    ELSE [k \in DOMAIN (notSent \o errored) |-> idx[(notSent \o errored)[k]]]
             x1 == FireAll(st, sidsOf([k \in DOMAIN okIdx |-> idx[okIdx[k]]]), "ok")
         IN IF bad = <<>> THEN Complete(x1, e)
            ELSE IF x1.s.attempts >= MaxAttempts
            THEN Complete(FireAll(x1, sidsOf(bad), "fail"), e)
            ELSE LET resetT == {s.pay[idx[k]][1] : k \in {j \in DOMAIN idx : codes[j] \in {3, 6}}}
                     x2 == Act(x1, <<"timer", Delay(x1.s.ridx + 1)>>)
                     RECURSIVE Resets(_, _)
                     Resets(x, ts) == IF ts = {} THEN x ELSE LET t == CHOOSE y \in ts : TRUE IN Resets(Act(x, <<"reset", t>>), ts \ {t})
                     x3 == Resets(x2, resetT)
                 IN [s |-> [x3.s EXCEPT !.phase = "retry", !.retry = bad, !.ridx = @ + 1], out |-> x3.out]

Possible(s, e) ==
    CASE e.a = "Send"        -> e.sid \in Sids /\ s.st[e.sid] = "new" /\ ~s.stopped     \* (a stopped producer is not sent to)
      [] e.a = "Cancel"      -> e.sid \in Sids /\ s.st[e.sid] \in {"queued", "batch"}
      [] e.a = "Stop"        -> ~s.stopped
      [] e.a = "ArmFail"     -> ~s.armedFail /\ ~s.stopped
      [] e.a = "Tick"        -> BatchT # 0 /\ ~s.stopped
      [] e.a = "MetaDone"    -> e.sid \in s.waiting \ s.wtimer /\ s.phase = "part"
      [] e.a = "MetaRetry"   -> e.sid \in s.waiting \cap s.wtimer /\ s.phase = "part"
      [] e.a = "ProduceDone" -> s.phase = "sent" /\ (e.res.kind = "resp" => Len(e.res.codes) = Len(SentIdx(s)))
      [] e.a = "RetryFire"   -> s.phase = "retry"
      [] OTHER -> FALSE

Step(s, e) ==
    LET st0 == [s |-> s, out |-> <<>>] IN
    CASE e.a = "Send" ->
           IF s.stopped
           THEN \* (sending after stop is outside the documented use; the producer queues it)
                [s |-> [s EXCEPT !.st[e.sid] = "queued", !.q = Append(@, e.sid), !.cnt = @ + CntOf[e.sid], !.bytes = @ + BytesOf[e.sid]], out |-> <<>>]
           ELSE CheckSend([s |-> [s EXCEPT !.st[e.sid] = "queued", !.q = Append(@, e.sid), !.cnt = @ + CntOf[e.sid],
                                           !.bytes = @ + BytesOf[e.sid], !.pa[e.sid] = e.x], out |-> <<>>], e)
      [] e.a = "Cancel" ->
           IF s.st[e.sid] = "queued"
           THEN \* not dispatched yet: removed from the batch and from the threshold accounting
                FireAll([s |-> [s EXCEPT !.q = SelectSeq(@, LAMBDA i : i # e.sid), !.cnt = @ - CntOf[e.sid],
                                         !.bytes = @ - BytesOf[e.sid]], out |-> <<>>], <<e.sid>>, "fail")
           ELSE FireAll(st0, <<e.sid>>, "fail")          \* already dispatched: only the caller is detached
      [] e.a = "Tick" -> SendBatch(st0, e)
      [] e.a = "MetaDone" ->
           \* the metadata load of e.sid's lookup returned (e.x = 1) or failed (e.x = 0)
           LET t == TopicOf[e.sid]
               x1 == IF e.x = 0 THEN [s |-> [s EXCEPT !.part[e.sid] = -1, !.waiting = @ \ {e.sid}], out |-> <<>>]
                     ELSE IF t \in s.kn THEN [s |-> [s EXCEPT !.part[e.sid] = s.pa[e.sid], !.waiting = @ \ {e.sid}], out |-> <<>>]
                     ELSE Act([s |-> [s EXCEPT !.attempts = @ + 1, !.ridx = @ + 1, !.wtimer = @ \cup {e.sid}], out |-> <<>>], <<"timer", Delay(s.ridx + 1)>>)
           IN IF x1.s.waiting = {} THEN SendRequests(x1, e) ELSE x1
      [] e.a = "MetaRetry" ->
           LET x1 == Lookup(st0, e.sid, e) IN IF x1.s.waiting = {} THEN SendRequests(x1, e) ELSE x1
      [] e.a = "ProduceDone" ->
           \* the client's own view of the topics changes with the outcome before the producer sees it (C08): a payload
           \* answered 3 or 6 invalidates its topic, a payload that could not be delivered everything
           LET idx == SentIdx(s)
               \* (when a recorded execution is validated -- MaxDepth = 0 -- the client's view is given by the record)
               kn2 == IF e.res.kind # "resp" \/ MaxDepth = 0 THEN s.kn
                      ELSE IF \E k \in DOMAIN idx : e.res.codes[k] < 0 THEN {}
                      ELSE s.kn \ {s.pay[idx[k]][1] : k \in {j \in DOMAIN idx : e.res.codes[j] \in {3, 6}}}
           IN HandleResult([s |-> [s EXCEPT !.kn = kn2], out |-> <<>>], e)
      [] e.a = "ArmFail" -> [s |-> [s EXCEPT !.armedFail = TRUE], out |-> <<>>]
      [] e.a = "RetryFire" ->
           LET pl == [k \in DOMAIN s.retry |-> s.pay[s.retry[k]]] IN
           AfterProduce(Act([s |-> [s EXCEPT !.phase = "sent", !.attempts = @ + 1], out |-> <<>>], <<"produce", pl>>), e)
      [] e.a = "Stop" ->
           \* The batch in flight is cancelled first.  If its produce request was with the client, the client reports
           \* what it has (e.res): partitions already acknowledged succeed -- truthfully --, nothing is retried.
           \* Then every send still outstanding fails with a cancellation; nothing is transmitted afterwards and
           \* no timer of the producer remains.
           LET idx == SentIdx(s)
               acked == IF s.phase = "sent" /\ e.res # <<>> /\ e.res.kind = "resp" /\ Len(e.res.codes) = Len(idx)
                        THEN SelectSeq([k \in DOMAIN idx |-> k], LAMBDA k : e.res.codes[k] = 0) ELSE <<>>
               RECURSIVE Cat(_)
               Cat(q) == IF q = <<>> THEN <<>> ELSE s.pay[idx[Head(q)]][3] \o Cat(Tail(q))
               x0 == FireAll(st0, Cat(acked), "ok")
               outstanding == SelectSeq(s.reqs \o s.q, LAMBDA i : x0.s.st[i] # "done")
               x2 == FireAll(x0, outstanding, "fail")
           IN [s |-> [x2.s EXCEPT !.stopped = TRUE, !.active = FALSE, !.phase = "idle", !.q = <<>>, !.cnt = 0, !.bytes = 0,
                                  !.reqs = <<>>, !.pay = <<>>, !.retry = <<>>, !.waiting = {}, !.wtimer = {}], out |-> x2.out]

-----------------------------------------------------------------------------
VARIABLES s, ev, out, h
vars == <<s, ev, out, h>>

InitHist == [ fires |-> [i \in Sids |-> 0], how |-> [i \in Sids |-> "none"],
              wire |-> <<>>,          \* every produce call so far: seq of payload lists
              sendOrder |-> <<>>,     \* sids in the order send_messages was called
              afterStop |-> FALSE, batchAttempts |-> 0, delays |-> <<>> ]
Fires(o, i) == Cardinality({k \in DOMAIN o : o[k][1] = "fire" /\ o[k][2] = i})
UpdHist(hh, pre, e, r) ==
    LET o == r.out
        calls == SelectSeq(o, LAMBDA a : a[1] = "produce")
        newBatch == pre.phase \in {"idle", "part"} \/ ~pre.active
    IN [ fires |-> [i \in Sids |-> hh.fires[i] + Fires(o, i)],
         how |-> [i \in Sids |-> IF \E k \in DOMAIN o : o[k][1] = "fire" /\ o[k][2] = i
                                 THEN o[CHOOSE k \in DOMAIN o : o[k][1] = "fire" /\ o[k][2] = i][3] ELSE hh.how[i]],
         wire |-> hh.wire \o [k \in DOMAIN calls |-> calls[k][2]],
         sendOrder |-> IF e.a = "Send" THEN Append(hh.sendOrder, e.sid) ELSE hh.sendOrder,
         afterStop |-> hh.afterStop \/ e.a = "Stop",
         \* produce requests issued for the batch now in flight
         batchAttempts |-> IF ~r.s.active THEN 0
                           \* (a new batch began in this event: only the calls that carry its sends count for it)
                           ELSE IF r.s.reqs # pre.reqs
                           THEN Len(SelectSeq(calls, LAMBDA c : \A k \in DOMAIN c[2] : \A i \in SeqToSet(c[2][k][3]) : i \in SeqToSet(r.s.reqs)))
                           ELSE hh.batchAttempts + Len(calls),
         delays |-> hh.delays ]

Init == s = InitState /\ ev = Ev("Init", 0, 0) /\ out = <<>> /\ h = InitHist

\* choices the environment makes
Outcomes(st) ==
    LET n == Len(SentIdx(st)) IN
    {[kind |-> "resp", codes |-> c] : c \in [1..n -> {0, 6, 7, -1}]} \cup
    {[kind |-> k, codes |-> <<>>] : k \in {"empty", "kafka", "other"}}
EvSend == {[a |-> "Send", sid |-> i, x |-> p, res |-> <<>>] : i \in Sids, p \in 0..1}
EvInt  == {[a |-> a, sid |-> i, x |-> 0, res |-> <<>>] : a \in {"Cancel", "MetaRetry"}, i \in Sids}
          \cup {[a |-> "MetaDone", sid |-> i, x |-> x, res |-> <<>>] : i \in Sids, x \in {0, 1}}
          \cup {[a |-> a, sid |-> 0, x |-> 0, res |-> <<>>] : a \in {"Tick", "RetryFire", "Stop", "ArmFail"}}
EvRes(st) == {[a |-> "ProduceDone", sid |-> 0, x |-> 0, res |-> r] : r \in Outcomes(st)}
Fire(e) ==
    /\ Possible(s, e)
    /\ LET r == Step(s, e) IN s' = r.s /\ ev' = e /\ out' = r.out /\ h' = UpdHist(h, s, e, r)
\* the client learns or loses a topic's metadata (its own refreshes and invalidations)
Learn == \E t \in Range(TopicOf) : /\ s' = [s EXCEPT !.kn = IF t \in @ THEN @ \ {t} ELSE @ \cup {t}]
                                    /\ ev' = [a |-> "Learn", sid |-> 0, x |-> 0, res |-> t] /\ out' = <<>> /\ UNCHANGED h
Next == (\E e \in EvSend : Fire(e)) \/ (\E e \in EvInt : Fire(e)) \/ (\E e \in EvRes(s) : Fire(e)) \/ Learn
Spec == Init /\ [][Next]_vars
Bound == TLCGet("level") <= MaxDepth

-----------------------------------------------------------------------------
(* Property clauses *)
\* C01: the Deferred of a send fires at most once ...
C01_once == \A i \in Sids : h.fires[i] <= 1
\* ... and it succeeds only from a produce outcome that acknowledged its partition without error
\* (or, with acks disabled, from the request having been handed over)
C01_ok_only_from_ack ==
    \A k \in DOMAIN out : out[k][1] = "fire" /\ out[k][3] = "ok" =>
        /\ ev.a \in {"ProduceDone", "Stop"} /\ ev.res # <<>>
        /\ (ev.res.kind = "empty" => Acks = 0)
        /\ (ev.res.kind = "resp" => \E j \in DOMAIN ev.res.codes : ev.res.codes[j] = 0)
\* C09: per partition the order of sends is preserved in every payload
C09_order ==
    \A w \in DOMAIN h.wire : \A p \in DOMAIN h.wire[w] :
        LET sids == h.wire[w][p][3] IN
        \A a, b \in DOMAIN sids : a < b =>
            (CHOOSE x \in DOMAIN h.sendOrder : h.sendOrder[x] = sids[a]) < (CHOOSE y \in DOMAIN h.sendOrder : h.sendOrder[y] = sids[b])
\* each send appears in exactly one payload of an attempt
C09_one_payload ==
    \A w \in DOMAIN h.wire : \A p, q \in DOMAIN h.wire[w] : p # q => SeqToSet(h.wire[w][p][3]) \cap SeqToSet(h.wire[w][q][3]) = {}
\* never more attempts than configured
C09_attempts == h.batchAttempts <= MaxAttempts
\* a later batch is not dispatched while an earlier one is unresolved
C09_serial == s.active => \A i \in SeqToSet(s.q) : s.st[i] = "queued"
\* C19: with nothing in flight, a met threshold does not wait
C19_threshold ==
    (~s.active /\ ~s.stopped /\ s.q # <<>>) => ~((BatchN # 0 /\ BatchN <= s.cnt) \/ (BatchB # 0 /\ BatchB <= s.bytes))
\* the threshold accounting matches the queue
C19_accounting ==
    LET RECURSIVE Sum(_, _)
        Sum(q, f) == IF q = <<>> THEN 0 ELSE f[Head(q)] + Sum(Tail(q), f)
    IN s.cnt = Sum(s.q, CntOf) /\ s.bytes = Sum(s.q, BytesOf)
\* after stop: everything outstanding has failed, nothing further is transmitted
C19_stop == h.afterStop => (\A k \in DOMAIN out : out[k][1] \notin {"produce", "meta", "timer"})
=============================================================================
