-------------------------- MODULE Partitioner_Trace --------------------------
(* Validates recorded call histories of afkak's HashedPartitioner and            *)
(* RoundRobinPartitioner objects, and hash values of pure_murmur2, against       *)
(* Partitioner / Murmur2.  A trace is a sequence of calls on ONE partitioner.    *)
EXTENDS Partitioner, Json, IOUtils, TLCExt

Traces == JsonDeserialize(IOEnv.TRACE_FILE)
VARIABLES tid, l, viol, drift
tvars == <<s, ev, out, tid, l, viol, drift>>

TInit == /\ tid \in DOMAIN Traces /\ l = 1 /\ viol = {} /\ drift = {}
         /\ s = InitState /\ ev = [a |-> "init"] /\ out = 0

TNext ==
    /\ l <= Len(Traces[tid])
    /\ LET rec == Traces[tid][l]
           e == rec.e
           L == e.list
       IN /\ ev' = e /\ out' = rec.o.r /\ l' = l + 1 /\ tid' = tid /\ drift' = drift
          /\ IF e.a = "rr"
             THEN \* the start of a new cycle is the implementation's choice: adopt what was observed
                  IF rec.o.r \notin Range(L)
                  THEN s' = [cur |-> L, pos |-> 1, run |-> <<>>] /\ viol' = viol \cup {<<"C18.rr_in_range", l>>}
                  ELSE LET changed == s.cur # L
                           r == StepRR(s, L, IF changed THEN Index(L, rec.o.r) - 1 ELSE 0)
                           run2 == IF changed THEN <<rec.o.r>> ELSE Append(s.run, rec.o.r)
                       IN /\ s' = [r.s EXCEPT !.run = run2,
                                              !.pos = (Index(L, rec.o.r) % Len(L)) + 1]
                          /\ viol' = viol \cup (IF ~Fair(run2, L) THEN {<<"C18.rr_fair", l>>} ELSE {})
                                          \cup (IF ~changed /\ r.out # rec.o.r THEN {<<"C18.rr_cycle", l>>} ELSE {})
             ELSE IF e.a = "hash"
             THEN /\ s' = s
                  /\ viol' = viol \cup (IF rec.o.r # Pick(e.key, L) THEN {<<"C18.hash_pick", l>>} ELSE {})
                                  \cup (IF rec.o.r \notin Range(L) THEN {<<"C18.hash_in_range", l>>} ELSE {})
                                  \cup (IF rec.o.exc # "" THEN {<<"C18.hash_raises", l>>} ELSE {})
             ELSE \* e.a = "murmur": pure_murmur2(key) as a signed 32-bit value, split in limbs by the recorder
                  /\ s' = s
                  /\ viol' = viol \cup (IF <<rec.o.hi, rec.o.lo>> # Hash(e.key) THEN {<<"C18.java", l>>} ELSE {})

TSpec == TInit /\ [][TNext]_tvars
Report == l > Len(Traces[tid]) => PrintT(<<"RESULT", tid, l - 1, viol, drift>>)
=============================================================================
