---------------------------- MODULE Negotiation ----------------------------
(***************************************************************************)
(* API version discovery of KafkaClient (last sentence of C04).            *)
(*                                                                         *)
(* One state per scenario: what the broker does with ApiVersions requests  *)
(* and which calls the application makes.  The module computes, for each,  *)
(* what must be seen on the wire: the version in the header of every       *)
(* produce and fetch request (whose body the independent parser then reads *)
(* by that version's layout), how many discovery requests at most, and     *)
(* that the calls complete with the broker's data (the reply was read by   *)
(* the matching decoder).                                                  *)
(***************************************************************************)
EXTENDS Naturals, Integers, Sequences, FiniteSets, TLC

Implemented == {0, 2}                 \* produce / fetch versions afkak has layouts for
MaxProbes == 3

\* what the broker does: a version table (min 0, the given maxima), an error answer, or no answer at all
Brokers ==
         {[kind |-> "table", maxP |-> p, maxF |-> f] : p \in {2, 3, 7}, f \in {2, 4, 11}}
    \cup {[kind |-> "error", maxP |-> 0, maxF |-> 0], [kind |-> "silent", maxP |-> 0, maxF |-> 0]}
Calls == {<<"produce">>, <<"fetch">>, <<"produce", "fetch">>, <<"fetch", "produce">>, <<"fetch", "fetch">>}
Scenarios == {[broker |-> b, calls |-> c, discovery |-> d] : b \in Brokers, c \in Calls, d \in {TRUE, FALSE}}

Pick(max) == CHOOSE v \in Implemented : v <= max /\ \A w \in Implemented : w <= max => w <= v
Version(sc, api) ==
    IF ~sc.discovery \/ sc.broker.kind # "table" THEN 0
    ELSE Pick(IF api = "produce" THEN sc.broker.maxP ELSE sc.broker.maxF)
Expected(sc) ==
    [ versions |-> [i \in DOMAIN sc.calls |-> Version(sc, sc.calls[i])],
      \* discovery requests seen by the brokers: none when disabled; when the broker answers, one per call that
      \* started before the answer was known (the calls are made back to back); when it stays silent, every probe of
      \* every call may reach it
      probesMin |-> IF sc.discovery THEN 1 ELSE 0,
      probesMax |-> IF ~sc.discovery THEN 0 ELSE Len(sc.calls) * (IF sc.broker.kind = "silent" THEN MaxProbes * 5 ELSE 1),
      completes |-> TRUE ]

VARIABLE sc
Init == sc \in Scenarios
Next == UNCHANGED sc
\* the chosen version is one the broker advertised and the client implements; version 0 when discovery fails
ChosenIsAdvertised ==
    \A i \in DOMAIN sc.calls :
        LET v == Expected(sc).versions[i] IN
        /\ v \in Implemented
        /\ (sc.discovery /\ sc.broker.kind = "table" => v <= (IF sc.calls[i] = "produce" THEN sc.broker.maxP ELSE sc.broker.maxF))
        /\ (~sc.discovery \/ sc.broker.kind # "table" => v = 0)
Emit == PrintT(<<"VEC", sc, Expected(sc)>>)
=============================================================================
