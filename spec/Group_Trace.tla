---------------------------- MODULE Group_Trace ----------------------------
(* Validates executions of the real ConsumerGroup (over a scripted client and scripted partition consumers) *)
(* against Group: the abstract state follows the design module's Step; what each event made the member do   *)
(* is compared with the prediction, and the property clauses are evaluated on the OBSERVED actions.         *)
EXTENDS Group, Json, IOUtils, TLCExt

Traces == JsonDeserialize(IOEnv.TRACE_FILE)
VARIABLES tid, l, viol, drift
tvars == <<s, ev, out, h, tid, l, viol, drift>>

Kind(o, ks) == SelectSeq(o, LAMBDA a : a[1] \in ks)
SetOf(q) == {q[i] : i \in DOMAIN q}

Tagged(p, o, e, pre, post, rec) ==
       (IF Kind(p, {"join", "sync", "coord"}) # Kind(o, {"join", "sync", "coord"})
           THEN {IF pre.stop # "no" \/ e.a = "Stop" THEN "C16.quiet_after_stop" ELSE "C17.rejoin"} ELSE {})
  \cup (IF Kind(p, {"parts", "meta", "reset"}) # Kind(o, {"parts", "meta", "reset"}) THEN {"C17.rejoin"} ELSE {})
  \cup (IF Kind(p, {"hb"}) # Kind(o, {"hb"}) THEN {"C16.heartbeat"} ELSE {})
  \cup (IF Kind(p, {"leave"}) # Kind(o, {"leave"}) THEN {"C16.leave"} ELSE {})
  \cup (IF Kind(p, {"cstart", "cshut", "cstop"}) # Kind(o, {"cstart", "cshut", "cstop"}) THEN {"C16.consumers"} ELSE {})
  \cup (IF Kind(p, {"timer"}) # Kind(o, {"timer"}) THEN {"C17.backoff"} ELSE {})
  \cup (IF Kind(p, {"fire"}) # Kind(o, {"fire"}) THEN {"C17.start_result"} ELSE {})
  \cup (IF Kind(o, {"overlap"}) # <<>> THEN {"C16.one_exchange"} ELSE {})
  \cup (IF rec.o.rejoin_timers # post.rtimers THEN {"C17.timers"} ELSE {})
  \cup (IF (rec.o.hb_timer > 0) # post.hbRun THEN {"C17.heartbeat_timer"} ELSE {})
  \cup (IF SetOf(rec.o.running) # SetOf(post.cons) \cup SetOf(post.closing) THEN {"C16.running"} ELSE {})
  \* nothing outstanding, nothing scheduled, not stable, not reported: the member is wedged
  \* (a heartbeat in flight is not a step toward membership)
  \cup (IF post.startD = "pending" /\ post.stop = "no" /\ SelectSeq(rec.o.outstanding, LAMBDA x : x # "hb") = <<>>
           /\ rec.o.closing = <<>> /\ rec.o.rejoin_timers = 0
           /\ ~(rec.o.hb_timer > 0 /\ ~post.rejoinNeeded) THEN {"C17.never_idle"} ELSE {})

Clauses ==
    << <<"C16.join_clean", C16_join_clean>>, <<"C16.start_current", C16_start_current>>, <<"C16.hb_stable", C16_hb_stable>>,
       <<"C16.quiet_after_stop", C16_quiet_after_stop>> >>

TInit ==
    /\ tid \in DOMAIN Traces /\ l = 1 /\ viol = {} /\ drift = {}
    /\ s = InitState /\ ev = Ev("Init", 0, "", <<>>) /\ out = <<>> /\ h = InitHist

TNext ==
    /\ l <= Len(Traces[tid].steps)
    /\ LET tr == Traces[tid]
           rec == tr.steps[l]
           e == rec.e
       IN IF e.a = "Unexecutable" \/ ~Possible(s, e)
          THEN /\ viol' = viol \cup {<<"ENV.impossible", l>>}
               /\ l' = Len(tr.steps) + 1
               /\ (IOEnv.TRACE_DEBUG = "1" => PrintT(<<"MISMATCH", tid, l, <<"impossible">>, s>>))
               /\ UNCHANGED <<s, ev, out, h, tid, drift>>
          ELSE LET r == Step(s, e)
                   o == rec.o.acts
               IN /\ s' = r.s /\ ev' = e /\ out' = o
                  /\ h' = UpdHist(h, s, e, [s |-> r.s, out |-> o])
                  /\ viol' = viol
                        \cup {<<c, l>> : c \in Tagged(r.out, o, e, s, r.s, rec)}
                        \cup {<<Clauses'[i][1], l>> : i \in {j \in DOMAIN Clauses : ~Clauses'[j][2]}}
                        \cup (IF rec.o.exc # "" THEN {<<"ENV.exception", l>>} ELSE {})
                  /\ drift' = drift
                  /\ (viol' # viol /\ IOEnv.TRACE_DEBUG = "1" => PrintT(<<"MISMATCH", tid, l, r.out, s>>))
                  /\ l' = l + 1 /\ tid' = tid

TSpec == TInit /\ [][TNext]_tvars
Report == l > Len(Traces[tid].steps) => PrintT(<<"RESULT", tid, l - 1, viol, drift>>)
=============================================================================
