------------------------------- MODULE Framing -------------------------------
(***************************************************************************)
(* Length-prefixed frame reassembly as KafkaProtocol and                   *)
(* KafkaBootstrapProtocol must perform it (property C06, last sentence).   *)
(*                                                                         *)
(* The broker writes a stream: a sequence of frames, each a 4-byte length  *)
(* L, then L bytes (4 bytes correlation id + extra payload).  The transport*)
(* delivers the stream in arbitrary chunks: Recv(n) hands the next n bytes *)
(* to the protocol.  What must be handed up after each chunk is a function *)
(* of the byte position only: exactly the frames that end inside the chunk,*)
(* in order.  A header announcing a length above the limit kills the       *)
(* connection as soon as its 4 bytes are in: nothing of it or after it is  *)
(* handed up.                                                              *)
(*                                                                         *)
(* Mode "boot" adds KafkaBootstrapProtocol's request table: a frame whose  *)
(* id is pending completes that request with the frame's bytes; a frame    *)
(* with an unknown id drops the connection (it completes no request); when *)
(* the connection goes every pending request fails once.                   *)
(***************************************************************************)
EXTENDS Naturals, Sequences, FiniteSets, TLC

CONSTANTS
    Streams,    \* set of streams; a stream is a sequence of frames <<id, extra>>; id = 0: bad length header
    Mode,       \* "proto" (KafkaProtocol) or "boot" (KafkaBootstrapProtocol)
    ReqIds      \* boot mode: ids the application may request

Range(f) == {f[i] : i \in DOMAIN f}
FrameLen(fr) == IF fr[1] = 0 THEN 4 ELSE 9 + fr[2]   \* 4 length + 4 id + 1 frame serial + extra
RECURSIVE SumLen(_, _)
SumLen(st, k) == IF k = 0 THEN 0 ELSE SumLen(st, k - 1) + FrameLen(st[k])
End(st, k) == SumLen(st, k)                 \* offset of the last byte of frame k
Total(st) == SumLen(st, Len(st))
\* index of the first bad header, Len+1 if none
FirstBad(st) == IF \E k \in DOMAIN st : st[k][1] = 0
                THEN CHOOSE k \in DOMAIN st : st[k][1] = 0 /\ \A j \in 1..(k - 1) : st[j][1] # 0
                ELSE Len(st) + 1

Ev(a, n) == [a |-> a, n |-> n]
NoOut == [up |-> <<>>, lose |-> FALSE, fired |-> {}]

InitState(st) == [stream |-> st, pos |-> 0, dead |-> FALSE, gone |-> FALSE, pend |-> {}]

\* frames (indices) completed by delivering bytes (pos, pos+n]
Completed(s, n) ==
    LET st == s.stream
        fb == FirstBad(st)
    IN SelectSeq([k \in DOMAIN st |-> k],
                 LAMBDA k : k < fb /\ End(st, k) > s.pos /\ End(st, k) <= s.pos + n)

\* In boot mode an unknown id makes the protocol ask for the connection to be closed; frames
\* already received in the same chunk are still matched against the pending requests (the
\* length-prefixed receiver keeps parsing what it was given), nothing is read afterwards.
RECURSIVE BootWalk(_, _, _)
BootWalk(st, ks, pend) ==
    IF ks = <<>> THEN [fired |-> {}, pend |-> pend, lose |-> FALSE]
    ELSE LET k == Head(ks) id == st[k][1] IN
         IF id \in pend
         THEN LET r == BootWalk(st, Tail(ks), pend \ {id}) IN
              [fired |-> r.fired \cup {<<id, "resp", k>>}, pend |-> r.pend, lose |-> r.lose]
         ELSE LET r == BootWalk(st, Tail(ks), pend) IN
              [fired |-> r.fired, pend |-> r.pend, lose |-> TRUE]

DoRecv(s, n) ==
    LET st == s.stream
        fb == FirstBad(st)
        ks == Completed(s, n)
        hitBad == fb <= Len(st) /\ End(st, fb) <= s.pos + n    \* the bad header is complete
    IN IF Mode = "proto"
       THEN [s |-> [s EXCEPT !.pos = @ + n, !.dead = hitBad],
             out |-> [NoOut EXCEPT !.up = [i \in DOMAIN ks |-> st[ks[i]][1]], !.lose = hitBad]]
       ELSE LET w == BootWalk(st, ks, s.pend) IN
            [s |-> [s EXCEPT !.pos = @ + n, !.dead = hitBad \/ w.lose, !.pend = w.pend],
             out |-> [NoOut EXCEPT !.fired = w.fired, !.lose = hitBad \/ w.lose]]

DoRequest(s, id) ==
    IF s.gone THEN [s |-> s, out |-> [NoOut EXCEPT !.fired = {<<id, "lost", 0>>}]]
    ELSE [s |-> [s EXCEPT !.pend = @ \cup {id}], out |-> NoOut]

DoConnLost(s) ==
    [s |-> [s EXCEPT !.gone = TRUE, !.dead = TRUE, !.pend = {}],
     out |-> [NoOut EXCEPT !.fired = {<<id, "lost", 0>> : id \in s.pend}]]

Possible(s, e) ==
    CASE e.a = "Recv"     -> ~s.dead /\ e.n >= 1 /\ s.pos + e.n <= Total(s.stream)
      [] e.a = "Request"  -> Mode = "boot" /\ e.n \notin s.pend
      [] e.a = "ConnLost" -> ~s.gone
      [] OTHER -> FALSE

Step(s, e) ==
    CASE e.a = "Recv"     -> DoRecv(s, e.n)
      [] e.a = "Request"  -> DoRequest(s, e.n)
      [] e.a = "ConnLost" -> DoConnLost(s)

-----------------------------------------------------------------------------
VARIABLES s, ev, out, h     \* h: [up: Seq(id) handed up so far, fires: id -> Nat]
vars == <<s, ev, out, h>>

InitHist == [up |-> <<>>, fires |-> [i \in ReqIds |-> 0], got |-> [i \in ReqIds |-> 0]]
UpdHist(hh, o) ==
    [ up |-> hh.up \o o.up,
      fires |-> [i \in ReqIds |-> hh.fires[i] + Cardinality({f \in o.fired : f[1] = i})],
      got |-> [i \in ReqIds |-> IF \E f \in o.fired : f[1] = i /\ f[2] = "resp"
                                THEN (CHOOSE f \in o.fired : f[1] = i /\ f[2] = "resp")[3] ELSE hh.got[i]] ]

Init == /\ \E st \in Streams : s = InitState(st)
        /\ ev = Ev("Init", 0) /\ out = NoOut /\ h = InitHist

Events(st) == {Ev("Recv", n) : n \in 1..Total(st.stream)} \cup {Ev("Request", i) : i \in ReqIds}
              \cup {Ev("ConnLost", 0)}

Next == \E e \in Events(s) :
          /\ Possible(s, e)
          /\ (e.a = "Request" => h.fires[e.n] = 0)          \* ids are single-use
          /\ LET r == Step(s, e) IN s' = r.s /\ ev' = e /\ out' = r.out /\ h' = UpdHist(h, r.out)
Spec == Init /\ [][Next]_vars

\* the ids of the frames that are complete within the first p bytes and precede any bad header
WholeFrames(st, p) ==
    LET ks == SelectSeq([k \in DOMAIN st |-> k], LAMBDA k : k < FirstBad(st) /\ End(st, k) <= p)
    IN [i \in DOMAIN ks |-> st[ks[i]][1]]

\* C06 reassembly (KafkaProtocol): what has been handed up is exactly the frames complete so far
C06_reassembly == Mode = "proto" => h.up = WholeFrames(s.stream, s.pos)
\* C06 length limit: a complete bad header has terminated the connection, and only then
C06_length_limit ==
    LET fb == FirstBad(s.stream) IN
    (fb <= Len(s.stream) /\ End(s.stream, fb) <= s.pos) => s.dead
\* boot mode: each request completes at most once, with the frame bearing its id
C06_boot_once == \A i \in ReqIds : h.fires[i] <= 1
C06_boot_own == \A i \in ReqIds : h.got[i] # 0 => s.stream[h.got[i]][1] = i
C06_boot_lost == s.gone => s.pend = {}
=============================================================================
