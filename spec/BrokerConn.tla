----------------------------- MODULE BrokerConn -----------------------------
(***************************************************************************)
(* One broker connection of afkak: _KafkaBrokerClient (request table,      *)
(* reconnect loop, close) over KafkaProtocol (frames).                     *)
(*                                                                         *)
(* Grain: one action = one reactor event (an application call, a connect   *)
(* result, a frame, a lost connection, a timer) together with all of its   *)
(* synchronous consequences.  The step function Step(s, e) is shared by    *)
(* the design model (BrokerConn.cfg, exhaustive) and by the trace          *)
(* specification BrokerConn_Trace.tla, which replays events recorded from  *)
(* the real objects and compares the predicted observations `out` with the *)
(* recorded ones.                                                          *)
(*                                                                         *)
(* Properties: C06 (exactly once, own id, foreign frames inert), C10       *)
(* (re-send once in order, reconnect iff pending, backoff, close).         *)
(***************************************************************************)
EXTENDS Naturals, Sequences, FiniteSets, TLC

CONSTANTS
    Ids,        \* correlation ids the application may use
    Foreign,    \* an id never issued (unsolicited frames)
    Policy,     \* <<d1, d2, ...>>: delay (microseconds) before the attempt after the n-th consecutive failure
    Addrs,      \* addresses the broker may be re-addressed to
    MaxConn,    \* bound on connections (state constraint only)
    MaxFail,    \* bound on consecutive failures (state constraint only)
    MaxDepth    \* bound on behaviour length (state constraint only)

Min(a, b) == IF a < b THEN a ELSE b
Range(f) == {f[i] : i \in DOMAIN f}
SeqOf(seq, P(_)) == SelectSeq(seq, P)

-----------------------------------------------------------------------------
(* Abstract state of the broker client                                      *)

InitState ==
    [ tbl      |-> <<>>,       \* request table, issue order: [id, sent, canc, exp]
      link     |-> "idle",     \* idle | connecting | backoff | up
      closing  |-> FALSE,      \* close() has been called
      lose     |-> FALSE,      \* loseConnection() requested on the current connection
      mid      |-> 0,          \* id of a frame of which only a part has arrived (0: none)
      failures |-> 0,
      conn     |-> 0,          \* ordinal of the current / latest connection
      addr     |-> 1,          \* address the next attempt goes to
      sync     |-> 0,          \* the next connection attempt completes inside endpoint.connect(): 0 no | 1 succeeds | 2 fails
      down     |-> "none" ]    \* none | pending | fired   (Deferred returned by close)

NoOut ==
    [ fired |-> {}, wrote |-> <<>>, connect |-> 0, ccancel |-> FALSE, timer |-> 0,
      tcancel |-> FALSE, lose |-> FALSE, down |-> FALSE, raised |-> FALSE ]

\* An event: kind, request id, one more argument, and -- for the events that complete exactly
\* one request (a frame, a cancel) -- what the application's callback on that request does
\* re-entrantly, inside the same reactor event: nothing, or another API call.
NoCb == [a |-> "none", id |-> 0, x |-> 0]
Ev(a, id, x) == [a |-> a, id |-> id, x |-> x, cb |-> NoCb]
EvCb(a, id, x, cb) == [a |-> a, id |-> id, x |-> x, cb |-> cb]

InTbl(s, id) == \E i \in DOMAIN s.tbl : s.tbl[i].id = id
Entry(s, id) == s.tbl[CHOOSE i \in DOMAIN s.tbl : s.tbl[i].id = id]
Without(tbl, id) == SelectSeq(tbl, LAMBDA r : r.id # id)
Delay(f) == Policy[Min(f, Len(Policy))]

\* Writing every unsent entry to the connection, in table order.  Entries that
\* expect no reply complete (with nothing) as soon as they are written.
Unsent(tbl) == SelectSeq(tbl, LAMBDA r : ~r.sent)
SendQueued(tbl) ==
    LET u == Unsent(tbl) IN
    [ tbl   |-> SelectSeq([i \in DOMAIN tbl |-> [tbl[i] EXCEPT !.sent = TRUE]],
                          LAMBDA r : r.exp \/ (\E j \in DOMAIN tbl : tbl[j].id = r.id /\ tbl[j].sent)),
      wrote |-> [i \in DOMAIN u |-> u[i].id],
      fired |-> {<<u[i].id, "none", 0>> : i \in {j \in DOMAIN u : ~u[j].exp}} ]

-----------------------------------------------------------------------------
(* The step function: state x event -> state x observations                 *)

DoMakeRequest(s, id, exp) ==
    IF InTbl(s, id) THEN [s |-> s, out |-> [NoOut EXCEPT !.raised = TRUE]]
    ELSE IF s.closing THEN [s |-> s, out |-> [NoOut EXCEPT !.fired = {<<id, "closed", 0>>}]]
    ELSE LET r == [id |-> id, sent |-> FALSE, canc |-> FALSE, exp |-> exp]
             t == Append(s.tbl, r) IN
         IF s.link = "up"
         THEN LET q == SendQueued(t) IN
              [s |-> [s EXCEPT !.tbl = q.tbl],
               out |-> [NoOut EXCEPT !.wrote = q.wrote, !.fired = q.fired]]
         ELSE IF s.link = "idle"
         THEN [s |-> [s EXCEPT !.tbl = t, !.link = "connecting", !.failures = 0],
               out |-> [NoOut EXCEPT !.connect = s.addr]]
         ELSE [s |-> [s EXCEPT !.tbl = t], out |-> NoOut]

DoConnectOK(s) ==
    LET q == SendQueued(s.tbl) IN
    [s |-> [s EXCEPT !.link = "up", !.failures = 0, !.conn = @ + 1, !.tbl = q.tbl,
                     !.lose = FALSE, !.mid = 0],
     out |-> [NoOut EXCEPT !.wrote = q.wrote, !.fired = q.fired]]

DoConnectFail(s) ==
    [s |-> [s EXCEPT !.link = "backoff", !.failures = @ + 1],
     out |-> [NoOut EXCEPT !.timer = Delay(s.failures + 1)]]

DoTimer(s) ==
    [s |-> [s EXCEPT !.link = "connecting"], out |-> [NoOut EXCEPT !.connect = s.addr]]

DoFrame(s, j, k) ==
    IF ~InTbl(s, j) THEN [s |-> [s EXCEPT !.mid = 0], out |-> NoOut]
    ELSE LET r == Entry(s, j) IN
         [s |-> [s EXCEPT !.tbl = Without(@, j), !.mid = 0],
          out |-> IF r.canc THEN NoOut ELSE [NoOut EXCEPT !.fired = {<<j, "resp", k>>}]]

DoPartial(s, j) == [s |-> [s EXCEPT !.mid = j], out |-> NoOut]

\* A frame header announcing a length above the limit: the connection is
\* dropped, nothing is delivered.
DoBadLen(s) == [s |-> [s EXCEPT !.lose = TRUE], out |-> [NoOut EXCEPT !.lose = TRUE]]

DoConnLost(s) ==
    LET t  == [i \in DOMAIN s.tbl |-> [s.tbl[i] EXCEPT !.sent = FALSE]]
        t2 == SelectSeq(t, LAMBDA r : ~r.canc) IN
    IF s.closing
    THEN [s |-> [s EXCEPT !.tbl = t2, !.link = "idle", !.lose = FALSE, !.mid = 0, !.down = "fired"],
          out |-> [NoOut EXCEPT !.down = TRUE]]
    ELSE IF t2 # <<>>
    THEN [s |-> [s EXCEPT !.tbl = t2, !.link = "connecting", !.lose = FALSE, !.mid = 0, !.failures = 0],
          out |-> [NoOut EXCEPT !.connect = s.addr]]
    ELSE [s |-> [s EXCEPT !.tbl = t2, !.link = "idle", !.lose = FALSE, !.mid = 0], out |-> NoOut]

DoCancel(s, id) ==
    LET r == Entry(s, id) IN
    [s |-> [s EXCEPT !.tbl = IF r.sent
                              THEN [i \in DOMAIN @ |-> IF @[i].id = id THEN [@[i] EXCEPT !.canc = TRUE] ELSE @[i]]
                              ELSE Without(@, id)],
     out |-> [NoOut EXCEPT !.fired = {<<id, "cancelled", 0>>}]]

DoDisconnect(s) ==
    IF s.link = "up"
    THEN [s |-> [s EXCEPT !.lose = TRUE], out |-> [NoOut EXCEPT !.lose = ~s.lose]]
    ELSE [s |-> s, out |-> NoOut]

\* `win`: the attempt that close() cancels has just succeeded (the connection wins the race with the
\* cancellation and the endpoint delivers it from inside cancel()): it is dropped at once, nothing is written
DoClose(s, win) ==
    LET f == {<<s.tbl[i].id, "closed", 0>> : i \in {j \in DOMAIN s.tbl : ~s.tbl[j].canc}}
        s1 == [s EXCEPT !.tbl = <<>>, !.closing = TRUE] IN
    CASE s.link = "up" ->
           [s |-> [s1 EXCEPT !.lose = TRUE, !.down = "pending"],
            out |-> [NoOut EXCEPT !.fired = f, !.lose = ~s.lose]]
      [] s.link = "connecting" /\ win ->
           [s |-> [s1 EXCEPT !.link = "up", !.conn = @ + 1, !.failures = 0, !.mid = 0, !.lose = TRUE, !.down = "pending"],
            out |-> [NoOut EXCEPT !.fired = f, !.ccancel = TRUE, !.lose = TRUE]]
      [] s.link = "connecting" ->
           [s |-> [s1 EXCEPT !.link = "idle", !.down = "fired"],
            out |-> [NoOut EXCEPT !.fired = f, !.ccancel = TRUE, !.down = TRUE]]
      [] s.link = "backoff" ->
           [s |-> [s1 EXCEPT !.link = "idle", !.down = "fired"],
            out |-> [NoOut EXCEPT !.fired = f, !.tcancel = TRUE, !.down = TRUE]]
      [] OTHER ->
           [s |-> [s1 EXCEPT !.down = "fired"], out |-> [NoOut EXCEPT !.fired = f, !.down = TRUE]]

DoReaddress(s, a) == [s |-> [s EXCEPT !.addr = a], out |-> NoOut]

\* The environment decides that the next connection attempt completes synchronously (an endpoint may return a
\* Deferred that has already fired): nothing observable until that attempt is made.
DoArm(s, x) == [s |-> [s EXCEPT !.sync = x], out |-> NoOut]

Merge(o1, o2) ==
    [ fired |-> o1.fired \cup o2.fired, wrote |-> o1.wrote \o o2.wrote,
      connect |-> IF o1.connect # 0 THEN o1.connect ELSE o2.connect,
      ccancel |-> o1.ccancel \/ o2.ccancel, timer |-> IF o1.timer # 0 THEN o1.timer ELSE o2.timer,
      tcancel |-> o1.tcancel \/ o2.tcancel, lose |-> o1.lose \/ o2.lose, down |-> o1.down \/ o2.down,
      raised |-> o1.raised ]

\* Is event e physically possible in state s?  (Environment guard: a reply
\* needs an open connection, a timer must be pending, ...)
Possible1(s, e) ==
    CASE e.a = "MakeRequest" -> TRUE
      [] e.a = "ConnectOK"   -> s.link = "connecting"
      [] e.a = "ConnectFail" -> s.link = "connecting"
      [] e.a = "Timer"       -> s.link = "backoff"
      [] e.a = "Frame"       -> s.link = "up" /\ ~s.lose /\ s.mid = 0
      [] e.a = "Partial"     -> s.link = "up" /\ ~s.lose /\ s.mid = 0
      [] e.a = "Rest"        -> s.link = "up" /\ ~s.lose /\ s.mid = e.id
      [] e.a = "BadLen"      -> s.link = "up" /\ ~s.lose /\ s.mid = 0
      [] e.a = "ConnLost"    -> s.link = "up"
      [] e.a = "Cancel"      -> InTbl(s, e.id) /\ ~Entry(s, e.id).canc
      [] e.a = "Disconnect"  -> TRUE
      [] e.a = "Close"       -> ~s.closing /\ (e.x = 1 => s.link = "connecting")
      [] e.a = "Readdress"   -> TRUE
      [] e.a = "Arm"         -> s.sync = 0 /\ e.x \in {1, 2}
      [] OTHER -> FALSE

Step0(s, e) ==
    CASE e.a = "MakeRequest" -> DoMakeRequest(s, e.id, e.x = 1)
      [] e.a = "ConnectOK"   -> DoConnectOK(s)
      [] e.a = "ConnectFail" -> DoConnectFail(s)
      [] e.a = "Timer"       -> DoTimer(s)
      [] e.a = "Frame"       -> DoFrame(s, e.id, e.x)
      [] e.a = "Partial"     -> DoPartial(s, e.id)
      [] e.a = "Rest"        -> DoFrame(s, e.id, e.x)
      [] e.a = "BadLen"      -> DoBadLen(s)
      [] e.a = "ConnLost"    -> DoConnLost(s)
      [] e.a = "Cancel"      -> DoCancel(s, e.id)
      [] e.a = "Disconnect"  -> DoDisconnect(s)
      [] e.a = "Close"       -> DoClose(s, e.x = 1)
      [] e.a = "Readdress"   -> DoReaddress(s, e.x)
      [] e.a = "Arm"         -> DoArm(s, e.x)

\* An attempt started by this event (a request on an idle client, a backoff timer, a drop with requests
\* pending) that completes inside endpoint.connect(): its result is handled within the same reactor event.
Step1(s, e) ==
    LET r == Step0(s, e) IN
    IF r.out.connect = 0 \/ r.s.sync = 0 THEN r
    ELSE LET s0 == [r.s EXCEPT !.sync = 0]
             r2 == IF r.s.sync = 1 THEN DoConnectOK(s0) ELSE DoConnectFail(s0)
         IN [s |-> r2.s, out |-> Merge(r.out, r2.out)]

\* Re-entrant callbacks.  The events that carry one complete at most one request, and do so
\* after the table has been updated, so the callback's API call simply sees the next state:
\* the composite is the sequential composition of the two steps.
CbRuns(e, o) == e.cb.a # "none" /\ \E f \in o.fired : f[1] = e.id
Possible(s, e) ==
    /\ Possible1(s, e)
    /\ (e.cb.a # "none" /\ e.a = "Close") =>
          \* the callback of request e.id, failed by close(), cancels its sibling e.cb.id
          /\ e.cb.a = "Cancel" /\ e.id # e.cb.id
          /\ InTbl(s, e.id) /\ ~Entry(s, e.id).canc /\ InTbl(s, e.cb.id) /\ ~Entry(s, e.cb.id).canc
    /\ (e.cb.a # "none" /\ e.a # "Close") =>
          /\ e.a \in {"Frame", "Rest", "Cancel"}
          /\ e.cb.a \in {"MakeRequest", "Cancel", "Close", "Disconnect"}
          /\ LET r1 == Step1(s, e) IN
                  /\ CbRuns(e, r1.out)        \* a callback is only mentioned where it will run
                  /\ Possible1(r1.s, e.cb)
                  /\ (e.cb.a = "MakeRequest" => ~InTbl(r1.s, e.cb.id))
\* close() completes several requests; the order is the implementation's, so whether the sibling
\* that a callback cancels had already failed with "closed" or is still pending (then: "cancelled")
\* is not determined -- either way it completes exactly once.  The model reports "closed"; the
\* trace specification accepts either for that one request.
Step(s, e) ==
    LET r1 == Step1(s, e) IN
    IF e.a = "Close" THEN r1
    ELSE IF CbRuns(e, r1.out)
    THEN LET r2 == Step1(r1.s, e.cb) IN [s |-> r2.s, out |-> Merge(r1.out, r2.out)]
    ELSE r1
\* did API call `a` happen in this event (directly or from the callback)?
Did(e, o, a) == e.a = a \/ (e.cb.a = a /\ CbRuns(e, o))

-----------------------------------------------------------------------------
(* Design model: every event the environment can produce, history variables *)
(* for the property clauses.                                                *)

VARIABLES
    s,       \* abstract state
    ev,      \* the event that led to this state
    out,     \* what that event made observable
    h        \* history: [issued: Seq(id), fires: id -> Nat, res: id -> kind, wire: conn -> Seq(id),
             \*           nofire: set of ids written without expecting a reply]
vars == <<s, ev, out, h>>

AllIds == Ids \cup {Foreign}

Events(st) ==
      {Ev("MakeRequest", i, x) : i \in Ids, x \in {0, 1}}
 \cup {Ev("ConnectOK", 0, 0), Ev("ConnectFail", 0, 0), Ev("Timer", 0, 0), Ev("BadLen", 0, 0),
       Ev("ConnLost", 0, 0), Ev("Disconnect", 0, 0), Ev("Close", 0, 0), Ev("Close", 0, 1),
       Ev("Arm", 0, 1), Ev("Arm", 0, 2)}
 \cup {Ev("Frame", j, 0) : j \in AllIds}
 \cup {Ev("Partial", j, 0) : j \in AllIds}
 \cup {Ev("Rest", j, 0) : j \in AllIds}
 \cup {Ev("Cancel", i, 0) : i \in Ids}
 \cup {Ev("Readdress", 0, a) : a \in Addrs}
 \cup {EvCb(a, j, 0, cb) : a \in {"Frame", "Rest", "Cancel"}, j \in Ids,
                          cb \in {Ev("Close", 0, 0), Ev("Disconnect", 0, 0)}
                               \cup {Ev("MakeRequest", i, 1) : i \in Ids}
                               \cup {Ev("Cancel", i, 0) : i \in Ids}}
 \cup {EvCb("Close", i, 0, Ev("Cancel", j, 0)) : i \in Ids, j \in Ids}

InitHist ==
    [ issued |-> <<>>, fires |-> [i \in Ids |-> 0], res |-> [i \in Ids |-> "pending"],
      wire |-> [c \in 1..MaxConn + 1 |-> <<>>], after |-> FALSE, cameUp |-> FALSE ]

\* ids issued and not yet completed, in issue order
Pending(hh) == SelectSeq(hh.issued, LAMBDA i : hh.fires[i] = 0)

UpdHist(hh, st, e, r) ==
    LET c == r.s.conn
        new1 == IF e.a = "MakeRequest" /\ ~r.out.raised /\ (\A k \in DOMAIN hh.issued : hh.issued[k] # e.id)
                THEN <<e.id>> ELSE <<>>
        new2 == IF e.cb.a = "MakeRequest" /\ CbRuns(e, r.out) /\ (\A k \in DOMAIN hh.issued : hh.issued[k] # e.cb.id)
                THEN <<e.cb.id>> ELSE <<>> IN
    [ issued |-> hh.issued \o new1 \o new2,
      fires  |-> [i \in Ids |-> hh.fires[i] + Cardinality({f \in r.out.fired : f[1] = i})],
      res    |-> [i \in Ids |-> IF \E f \in r.out.fired : f[1] = i
                                THEN (CHOOSE f \in r.out.fired : f[1] = i)[2] ELSE hh.res[i]],
      wire   |-> IF r.out.wrote # <<>> THEN [hh.wire EXCEPT ![c] = @ \o r.out.wrote] ELSE hh.wire,
      after  |-> hh.after \/ Did(e, r.out, "Close"),
      \* this event brought a connection up for use (a connect result, or an attempt that completed synchronously)
      cameUp |-> r.s.conn # st.conn /\ ~r.s.closing ]

Init == /\ s = InitState /\ ev = Ev("Init", 0, 0) /\ out = NoOut /\ h = InitHist

\* An id may be re-used only after its previous use completed (the API's contract).
Fresh(st, hh, e) ==
    /\ e.a = "MakeRequest" => (\A k \in DOMAIN hh.issued : hh.issued[k] # e.id)
    /\ e.cb.a = "MakeRequest" => (\A k \in DOMAIN hh.issued : hh.issued[k] # e.cb.id)

Next == \E e \in Events(s) :
          /\ Possible(s, e) /\ Fresh(s, h, e)
          /\ LET r == Step(s, e) IN
               /\ s' = r.s /\ ev' = e /\ out' = r.out
               /\ h' = UpdHist(h, s, e, r)

Spec == Init /\ [][Next]_vars

Bound == /\ s.conn <= MaxConn /\ s.failures <= MaxFail /\ TLCGet("level") <= MaxDepth

-----------------------------------------------------------------------------
(* Property clauses.  State predicates over (ev, out, h): "the event that    *)
(* just happened made these things observable, given this history".          *)

\* C06: each request completes at most once ...
C06_once == \A i \in Ids : h.fires[i] <= 1
\* ... and exactly once as soon as it has been answered, cancelled or the owner closed
C06_once_done ==
    /\ (ev.a \in {"Frame", "Rest"} /\ ev.id \in Ids /\ (\E k \in DOMAIN h.issued : h.issued[k] = ev.id)
            => h.fires[ev.id] = 1)
    /\ (ev.a = "Cancel" => h.fires[ev.id] = 1)
    /\ (Did(ev, out, "Close") => \A k \in DOMAIN h.issued : h.fires[h.issued[k]] = 1)
    /\ (Did(ev, out, "Cancel") /\ ev.a # "Cancel" => h.fires[ev.cb.id] = 1)
\* a response is delivered only to the request bearing its id
C06_own == \A f \in out.fired : f[2] = "resp" => (ev.a \in {"Frame", "Rest"} /\ f[1] = ev.id)
\* a frame with an unknown id, or the id of a completed/cancelled request, changes no outcome
C06_foreign_inert ==
    ev.a \in {"Frame", "Rest", "Partial", "BadLen"} =>
        \/ \E f \in out.fired : f[1] = ev.id /\ f[2] = "resp"      \* the frame answered its own request
        \/ out.fired = {}                                          \* ... or nothing completed at all
\* an impossible length terminates the connection
C06_length_limit == ev.a = "BadLen" => (s.lose /\ out.fired = {})

\* C10: no id is written twice on one connection
C10_once_per_conn ==
    \A c \in DOMAIN h.wire : \A a, b \in DOMAIN h.wire[c] : a # b => h.wire[c][a] # h.wire[c][b]
\* what is written right after a connection comes up is exactly the pending requests in issue order
\* (h still counts the no-reply requests completed by this very event as fired, hence the union)
C10_resend_set ==
    h.cameUp =>
        out.wrote = SelectSeq(h.issued, LAMBDA i : h.fires[i] = 0 \/ <<i, "none", 0>> \in out.fired)
\* nothing that already completed is ever written again
C10_no_resend ==
    \A k \in DOMAIN out.wrote :
        LET i == out.wrote[k] IN h.fires[i] = 0 \/ (h.fires[i] = 1 /\ <<i, "none", 0>> \in out.fired)
\* after a drop: reconnect iff something is pending and not closing
C10_reconnect_iff ==
    ev.a = "ConnLost" =>
        /\ (Pending(h) # <<>> /\ ~s.closing =>
                /\ out.connect # 0
                /\ \/ s.link = "connecting"
                   \/ h.cameUp /\ s.link = "up"              \* (the attempt completed synchronously)
                   \/ out.timer # 0 /\ s.link = "backoff")
        /\ (Pending(h) = <<>> \/ s.closing => out.connect = 0 /\ s.link = "idle")
\* an idle dropped connection is re-opened by the next request
C10_reopen_on_request ==
    (ev.a = "MakeRequest" /\ ~out.raised /\ ~s.closing /\ out.fired = {} /\ out.wrote = <<>>)
        => s.link \in {"connecting", "backoff"}
\* backoff between failed attempts follows the policy, failure count reset by success
C10_backoff ==
    /\ (ev.a = "ConnectFail" => out.timer = Delay(s.failures) /\ s.failures >= 1)
    /\ (out.timer # 0 => s.failures >= 1 /\ out.timer = Delay(s.failures))
    /\ (ev.a = "ConnectOK" \/ h.cameUp => s.failures = 0)
\* closing fails everything pending, cancels any attempt, makes no further ones
C10_close ==
    /\ (h.after => out.connect = 0 /\ out.timer = 0 /\ out.wrote = <<>>)
    /\ (h.after => s.link \in {"idle", "up"} /\ (s.link = "up" => s.lose))
    /\ (h.after => \A k \in DOMAIN h.issued : h.fires[h.issued[k]] = 1)
    /\ (s.down = "fired" => s.link = "idle")

TypeOK ==
    /\ s.link \in {"idle", "connecting", "backoff", "up"}
    /\ s.down \in {"none", "pending", "fired"}
    /\ (s.link # "up" => \A i \in DOMAIN s.tbl : ~s.tbl[i].sent /\ ~s.tbl[i].canc)
    /\ \A i, j \in DOMAIN s.tbl : i # j => s.tbl[i].id # s.tbl[j].id
    \* the table holds exactly the pending requests plus cancelled-but-sent ones
    /\ \A k \in DOMAIN h.issued : h.fires[h.issued[k]] = 0 => InTbl(s, h.issued[k])
=============================================================================
