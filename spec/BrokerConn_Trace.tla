-------------------------- MODULE BrokerConn_Trace --------------------------
(***************************************************************************)
(* Validates executions recorded from the real _KafkaBrokerClient /        *)
(* KafkaProtocol against BrokerConn.  One initial state per trace; each    *)
(* step consumes one recorded reactor event, advances the abstract state   *)
(* with the design module's own Step, rebuilds the history h from what was *)
(* OBSERVED, evaluates every property clause of the design module on it,   *)
(* and compares the observations the design predicts with the recorded     *)
(* ones.  Nothing disables a step: failing clauses accumulate in viol,     *)
(* conformance differences that no property constrains accumulate in drift.*)
(***************************************************************************)
EXTENDS BrokerConn, Json, IOUtils, TLCExt

Traces == JsonDeserialize(IOEnv.TRACE_FILE)

VARIABLES tid, l, viol, drift
tvars == <<s, ev, out, h, tid, l, viol, drift>>

\* recorded observations in the shape of `out`
AsOut(o) ==
    [ fired |-> Range(o.fired), wrote |-> o.wrote, connect |-> o.connect, ccancel |-> o.ccancel,
      timer |-> o.timer, tcancel |-> o.tcancel, lose |-> o.lose, down |-> o.down, raised |-> o.raised ]

\* property clauses of the design module, evaluated on the observed history
Clauses ==
    << <<"C06.once", C06_once>>, <<"C06.once_done", C06_once_done>>, <<"C06.own", C06_own>>,
       <<"C06.foreign_inert", C06_foreign_inert>>,
       <<"C10.once_per_conn", C10_once_per_conn>>, <<"C10.resend_set", C10_resend_set>>,
       <<"C10.no_resend", C10_no_resend>>, <<"C10.reconnect_iff", C10_reconnect_iff>>,
       <<"C10.backoff", C10_backoff>>, <<"C10.close", C10_close>> >>

\* Conformance: fields of the predicted observation that a property determines
\* completely are tagged with that property's clause; the rest is drift.
Tagged(p, o, e) ==
       (IF p.fired # o.fired \/ Len(Traces[tid][l].o.fired) # Cardinality(o.fired)
           THEN {"C06.outcome"} ELSE {})
  \cup (IF p.wrote # o.wrote THEN {"C10.wire"} ELSE {})
  \cup (IF (p.connect = 0) # (o.connect = 0) THEN {"C10.reconnect"} ELSE {})
  \cup (IF p.connect # 0 /\ o.connect # 0 /\ p.connect # o.connect THEN {"C08.readdress"} ELSE {})
  \cup (IF p.timer # o.timer THEN {"C10.backoff_delay"} ELSE {})
  \cup (IF p.ccancel # o.ccancel \/ p.tcancel # o.tcancel THEN {"C10.close_cancels"} ELSE {})
  \cup (IF e.a = "BadLen" /\ p.lose # o.lose THEN {"C06.length_limit"} ELSE {})

Untagged(p, o, e) ==
       (IF e.a # "BadLen" /\ p.lose # o.lose THEN {"lose"} ELSE {})
  \cup (IF p.down # o.down THEN {"down"} ELSE {})
  \cup (IF p.raised # o.raised THEN {"raised"} ELSE {})

TInit ==
    /\ tid \in DOMAIN Traces /\ l = 1 /\ viol = {} /\ drift = {}
    /\ s = InitState /\ ev = Ev("Init", 0, 0) /\ out = NoOut /\ h = InitHist

TNext ==
    /\ l <= Len(Traces[tid])
    /\ LET rec == Traces[tid][l]
           e == rec.e
       IN IF e.a = "Unexecutable" \/ ~Possible(s, e)
          THEN \* the recorded event cannot happen in the abstract state: the run left the
               \* model earlier (then viol/drift say where) or the harness is wrong
               /\ viol' = viol \cup {<<"ENV.impossible", l>>}
               /\ l' = Len(Traces[tid]) + 1
               /\ UNCHANGED <<s, ev, out, h, tid, drift>>
          ELSE LET r == Step(s, e)
                   o0 == AsOut(rec.o)
                   \* close() + a callback cancelling a sibling: "cancelled" is as good as "closed" for that sibling
                   o == IF e.a = "Close" /\ e.cb.a = "Cancel"
                        THEN [o0 EXCEPT !.fired = {IF f = <<e.cb.id, "cancelled", 0>> THEN <<e.cb.id, "closed", 0>> ELSE f : f \in @}]
                        ELSE o0
               IN /\ s' = r.s /\ ev' = e /\ out' = o
                  /\ h' = UpdHist(h, s, e, [s |-> r.s, out |-> o])
                  /\ viol' = viol
                        \cup {<<c, l>> : c \in Tagged(r.out, o, e)}
                        \cup {<<Clauses'[i][1], l>> : i \in {j \in DOMAIN Clauses : ~Clauses'[j][2]}}
                        \cup (IF rec.o.exc # "" THEN {<<"ENV.exception", l>>} ELSE {})
                  /\ drift' = drift \cup {<<f, l>> : f \in Untagged(r.out, o, e)}
                  /\ l' = l + 1 /\ tid' = tid

TSpec == TInit /\ [][TNext]_tvars

Report == l > Len(Traces[tid]) => PrintT(<<"RESULT", tid, l - 1, viol, drift>>)
=============================================================================
