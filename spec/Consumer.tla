------------------------------ MODULE Consumer ------------------------------
(***************************************************************************)
(* afkak's single-partition Consumer.  Properties C02, C03, C13, C14 and   *)
(* the consumer half of C12.                                               *)
(*                                                                         *)
(* Environment: the application (start / stop / shutdown / commit), the    *)
(* processor it supplied (synchronous, or asynchronous with the harness    *)
(* deciding when and how it completes), the reactor's timers and the       *)
(* KafkaClient (held to its contract by ClientRouting).  One action = one  *)
(* of these events with all synchronous consequences; the observable       *)
(* actions of an event are, in order,                                      *)
(*   <<"offsets", which>>  <<"ofetch">>  <<"fetch", offset, bufIdx>>       *)
(*   <<"commit", offset>>  <<"proc", <<offsets>>>>                         *)
(*   <<"fire", who, "ok"|"fail", value>>   who: "start", "shutdown", "c<k>"*)
(*   <<"timer", delay>>                                                    *)
(* The partition log is the constant Log (offsets present, with gaps).     *)
(***************************************************************************)
EXTENDS Naturals, Integers, Sequences, FiniteSets, TLC

CONSTANTS Log,            \* set of offsets present in the partition
          BlockN,         \* auto_commit_every_n (0: whole response is one block, no commit by count)
          AutoCommitT,    \* TRUE: the time-triggered auto-commit is configured
          Group,          \* TRUE: a consumer group is configured
          MaxAttempts,    \* request_retry_max_attempts (0: forever)
          Reset,          \* auto_offset_reset: "none" | "earliest" | "latest"
          SyncProc,       \* TRUE: the processor returns synchronously (successfully)
          Delays,         \* <<d1, d2, ...>> retry delay table (microseconds): init*f^(k-1) capped
          MaxBuf,         \* number of buffer growth steps available (0: the initial size is the maximum)
          MaxDepth

EARLIEST == -2
BAD == -2          \* (as the last element of a fetch window)
LATEST == -1
COMMITTED == -101
Range(f) == {f[i] : i \in DOMAIN f}
SeqToSet(q) == {q[i] : i \in DOMAIN q}
LogSeq == LET RECURSIVE Sort(_)
              Sort(S) == IF S = {} THEN <<>> ELSE LET m == CHOOSE x \in S : \A y \in S : x <= y IN <<m>> \o Sort(S \ {m})
          IN Sort(Log)
LogStart == IF Log = {} THEN 0 ELSE LogSeq[1]
LogEnd == IF Log = {} THEN 0 ELSE LogSeq[Len(LogSeq)] + 1
Delay(k) == Delays[IF k <= Len(Delays) THEN k ELSE Len(Delays)]

InitState ==
    [ startD |-> "none",       \* none | pending | fired   (the Deferred returned by start; none: not running;
                               \* fired: an unrecoverable error was reported -- nothing more is fetched or delivered)
      fo |-> 0,                \* _fetch_offset
      req |-> "none",          \* none | offsets | ofetch | fetch    (_request_d)
      parked |-> <<>>,         \* a fetch reply held back behind the block being processed: <<window>>
      retry |-> FALSE,         \* _retry_call armed
      ridx |-> 1,              \* index of the next retry delay
      acount |-> 1,            \* _fetch_attempt_count
      block |-> FALSE,         \* _msg_block_d set: a reply's messages are being worked through
      todo |-> <<>>,           \* messages of that reply not yet handed to the processor
      cur |-> <<>>,            \* the block the processor is working on
      procPending |-> FALSE,
      lp |-> -1, lc |-> -1,    \* last processed / last committed (-1: none)
      cds |-> <<>>,            \* waiters of the commit in progress (oldest first): "c<k>" | "auto" | "autoretry"["T"] | "shutdown" | "inner"
      creq |-> [on |-> FALSE, off |-> 0, attempt |-> 0, didx |-> 0],
      ccall |-> FALSE,         \* commit retry timer armed
      looper |-> FALSE, shutting |-> FALSE, shutD |-> FALSE, shutWait |-> FALSE, buf |-> 0, maxAttempts |-> MaxAttempts,
      armed |-> FALSE ]        \* the (synchronous) processor will call stop() from inside its next invocation

Ev(a, x) == [a |-> a, x |-> x, w |-> <<>>, k |-> ""]      \* x: integer argument, k: string argument, w: fetch window
St(s, out) == [s |-> s, out |-> out]
Act(st, a) == [s |-> st.s, out |-> Append(st.out, a)]
FailStart(st) == IF st.s.startD = "pending" THEN Act([s |-> [st.s EXCEPT !.startD = "fired"], out |-> st.out], <<"fire", "start", "fail", 0>>) ELSE st

RECURSIVE Process(_), ProcDone(_, _), FetchReply(_, _), CommitAndStop(_), Deliver(_, _, _)

\* ---------------------------------------------------------------- fetching
Exhausted(s) == s.maxAttempts # 0 /\ s.acount >= s.maxAttempts
DoFetch(st) ==
    LET s == st.s IN
    IF s.req # "none" THEN st
    ELSE LET s1 == [s EXCEPT !.retry = FALSE] IN
         IF s.startD = "fired" THEN St(s1, st.out)
         ELSE IF s.fo \in {EARLIEST, LATEST} THEN Act(St([s1 EXCEPT !.req = "offsets"], st.out), <<"offsets", s.fo>>)
         ELSE IF s.fo = COMMITTED THEN Act(St([s1 EXCEPT !.req = "ofetch"], st.out), <<"ofetch">>)
         ELSE Act(St([s1 EXCEPT !.req = "fetch"], st.out), <<"fetch", s.fo, s.buf>>)

\* _retry_fetch(after): zero = TRUE for the immediate re-fetch after a reply
RetryFetch(st, zero) ==
    LET s == st.s IN
    IF s.shutting \/ s.startD \in {"none", "fired"} THEN st
    ELSE IF s.retry THEN st
    ELSE IF zero THEN Act(St([s EXCEPT !.retry = TRUE, !.acount = @ + 1], st.out), <<"timer", 0>>)
    ELSE Act(St([s EXCEPT !.retry = TRUE, !.acount = @ + 1, !.ridx = @ + 1], st.out), <<"timer", Delay(s.ridx)>>)

\* ---------------------------------------------------------------- committing
SendCommit(st, didx, attempt) ==
    LET s == st.s IN
    Act(St([s EXCEPT !.creq = [on |-> TRUE, off |-> s.lp, attempt |-> attempt, didx |-> didx], !.ccall = FALSE], st.out),
        <<"commit", s.lp>>)

\* commit(): returns through a "fire" of the caller's Deferred when it completes at once
Commit(st, who) ==
    LET s == st.s IN
    IF s.lp = -1 \/ s.lp = s.lc THEN (IF who \in {"auto", "autoretry"} THEN st ELSE Act(st, <<"fire", who, "ok", s.lc>>))
    ELSE IF s.cds # <<>> THEN
         \* a commit is in progress: the caller is told so (its Deferred fails with OperationInProgress,
         \* which carries a Deferred that fires when that commit is over)
         Act(St([s EXCEPT !.cds = Append(@, "inner")], st.out), <<"fire", who, "fail", 0>>)
    ELSE SendCommit(St([s EXCEPT !.cds = <<who>>], st.out), 1, 1)

AutoCommit(st, byCount) ==
    LET s == st.s IN
    IF s.shutting \/ s.startD = "none" \/ s.lp = -1 \/ ~Group \/ (byCount /\ BlockN = 0) THEN st
    ELSE IF ~byCount \/ s.lc = -1 \/ (s.lp - s.lc) >= BlockN
    THEN IF s.cds = <<>> THEN Commit(st, "auto") ELSE St([s EXCEPT !.cds = Append(@, IF byCount THEN "autoretry" ELSE "autoretryT")], st.out)
    ELSE st

\* graceful shutdown, second half: commit (if a group is configured) and stop
StopNow(s0) ==
    \* stop(): everything outstanding is cancelled, the start Deferred fires with the last processed offset
    LET s == s0.s
        \* Cancelling the pending processor call lets the block loop take one more turn: the next block is handed to
        \* the processor and cancelled at once.  This happens inside stop(), not after it has returned.
        st == IF s0.s.procPending /\ s0.s.todo # <<>> /\ ~s0.s.shutting /\ s0.s.startD # "fired"
              THEN Act(s0, <<"proc", SubSeq(s0.s.todo, 1, IF BlockN = 0 \/ BlockN > Len(s0.s.todo) THEN Len(s0.s.todo) ELSE BlockN)>>)
              ELSE s0
        s1 == [s EXCEPT !.req = "none", !.parked = <<>>, !.retry = FALSE, !.block = FALSE, !.todo = <<>>, !.cur = <<>>,
                        !.procPending = FALSE, !.cds = <<>>, !.creq.on = FALSE, !.ccall = FALSE, !.looper = FALSE]
        \* waiters of a commit in progress are cancelled (manual ones observe a failure)
        x1 == LET RECURSIVE W(_, _)
                  W(x, q) == IF q = <<>> THEN x
                             ELSE LET who == q[Len(q)] rest == SubSeq(q, 1, Len(q) - 1) IN
                                  W(IF who \in {"auto", "autoretry", "autoretryT", "shutdown", "inner"} THEN x ELSE Act(x, <<"fire", who, "fail", 0>>), rest)
              IN W(St(s1, st.out), s.cds)
        x2 == IF x1.s.startD = "pending" THEN Act(x1, <<"fire", "start", "ok", s.lp>>) ELSE x1
    IN St([x2.s EXCEPT !.startD = "none", !.shutWait = FALSE], x2.out)

CommitAndStop(st) ==
    LET s == st.s IN
    IF ~Group \/ s.lp = -1 \/ s.lp = s.lc
    THEN LET x == StopNow(st) IN Act(St([x.s EXCEPT !.shutting = FALSE, !.shutD = FALSE], x.out), <<"fire", "shutdown", "ok", s.lp>>)
    ELSE IF s.cds # <<>> THEN St([s EXCEPT !.cds = Append(@, "shutdown")], st.out)
    ELSE SendCommit(St([s EXCEPT !.cds = <<"shutdown">>], st.out), 1, 1)

\* the commit in progress is over: tell the waiters (newest first, as the code pops them)
Deliver(st, ok, val) ==
    LET s == st.s
        ws == s.cds
        x0 == St([s EXCEPT !.cds = <<>>], st.out)
        RECURSIVE W(_, _)
        W(x, k) ==
           IF k = 0 THEN x
           ELSE LET who == ws[k] IN
                W(CASE who = "auto" -> IF ok THEN x ELSE FailStart(x)
                    [] who = "autoretry" -> IF ok THEN AutoCommit(x, TRUE) ELSE x       \* (it re-examines the count rule,
                    [] who = "autoretryT" -> IF ok THEN AutoCommit(x, FALSE) ELSE x     \*  or commits as the timer would have)
                    [] who = "shutdown" ->
                         IF ok THEN CommitAndStop(x)        \* (the commit it waited for may not cover everything)
                         ELSE LET y == StopNow(x) IN
                              Act(St([y.s EXCEPT !.shutting = FALSE, !.shutD = FALSE], y.out), <<"fire", "shutdown", "fail", 0>>)
                    [] who = "inner" -> x
                    [] OTHER -> Act(x, <<"fire", who, IF ok THEN "ok" ELSE "fail", val>>), k - 1)
    IN W(x0, Len(ws))

\* ---------------------------------------------------------------- processing
Process(st) ==
    \* hand the next block to the processor, or finish the reply
    LET s == st.s IN
    IF s.todo # <<>> /\ ~s.shutting /\ s.startD # "fired"
    THEN LET n == IF BlockN = 0 THEN Len(s.todo) ELSE (IF BlockN < Len(s.todo) THEN BlockN ELSE Len(s.todo))
             blk == SubSeq(s.todo, 1, n)
             x1 == Act(St([s EXCEPT !.cur = blk, !.todo = SubSeq(@, n + 1, Len(@)), !.procPending = TRUE], st.out), <<"proc", blk>>)
         IN IF SyncProc /\ s.armed
            THEN \* stop() from inside the processor: everything is cancelled and the start Deferred fires with the offset
                 \* processed so far; the invocation then returns successfully and its last offset is recorded
                 LET y == StopNow(St([x1.s EXCEPT !.armed = FALSE, !.procPending = FALSE], x1.out))
                 IN St([y.s EXCEPT !.lp = blk[Len(blk)]], y.out)
            ELSE IF SyncProc THEN ProcDone(x1, TRUE) ELSE x1
    ELSE \* block finished: a parked reply is handled now
         LET x1 == St([s EXCEPT !.block = FALSE, !.todo = <<>>, !.cur = <<>>], st.out) IN
         IF s.parked # <<>> THEN FetchReply(St([x1.s EXCEPT !.parked = <<>>], x1.out), s.parked[1]) ELSE x1

ProcDone(st, ok) ==
    LET s == st.s
        last == s.cur[Len(s.cur)]
        x0 == St([s EXCEPT !.procPending = FALSE, !.cur = <<>>], st.out)
        \* success records the offset and may auto-commit; failure is reported on the start Deferred
        x1 == IF ok THEN AutoCommit(St([x0.s EXCEPT !.lp = last], x0.out), TRUE)
              ELSE FailStart(x0)      \* (the rest of the reply is dropped by Process: the consumer has failed)
        \* the block loop resumes first (it ends at once when shutting down; a parked reply is then looked at) ...
        x2 == IF x1.s.startD = "none" THEN x1 ELSE Process(x1)
    IN \* ... and a shutdown that was waiting for the processor continues now
       IF s.shutWait /\ x2.s.startD # "none" THEN CommitAndStop(St([x2.s EXCEPT !.shutWait = FALSE], x2.out)) ELSE x2

FetchReply(st, w0) ==
    \* w0: the offsets of the messages in the reply (the consumer skips those below its fetch offset); a last element
    \* BAD stands for an entry whose decoding raises: what precedes it is delivered and the position advanced past it,
    \* then the reply is handled as a failed fetch
    LET s == st.s
        bad == w0 # <<>> /\ w0[Len(w0)] = BAD
        w == IF bad THEN SubSeq(w0, 1, Len(w0) - 1) ELSE w0 IN
    IF s.block THEN St([s EXCEPT !.parked = <<w0>>, !.ridx = 1, !.acount = 1], st.out)
    ELSE IF s.startD = "fired" THEN St([s EXCEPT !.req = "none", !.ridx = 1, !.acount = 1], st.out)
    ELSE IF w0 = <<-1>>
    THEN \* not even one complete message fits the buffer: grow it, or give up at the maximum; never skip
         IF s.buf < MaxBuf THEN RetryFetch(St([s EXCEPT !.req = "none", !.ridx = 1, !.acount = 1, !.buf = @ + 1], st.out), TRUE)
         ELSE FailStart(St([s EXCEPT !.req = "none", !.ridx = 1, !.acount = 1], st.out))
    ELSE LET msgs == SelectSeq(w, LAMBDA o : o >= s.fo)
             fo2 == IF msgs = <<>> THEN s.fo ELSE msgs[Len(msgs)] + 1
             s1 == [s EXCEPT !.req = "none", !.ridx = 1, !.acount = 1, !.fo = fo2]
             x1 == IF msgs # <<>> THEN Process(St([s1 EXCEPT !.block = TRUE, !.todo = msgs], st.out)) ELSE St(s1, st.out)
         IN IF ~bad THEN RetryFetch(x1, TRUE)
            ELSE IF x1.s.startD = "fired" THEN x1
            ELSE IF Exhausted(x1.s) THEN FailStart(x1) ELSE RetryFetch(x1, FALSE)

\* ---------------------------------------------------------------- events

Possible(s, e) ==
    CASE e.a = "Start"        -> s.startD = "none"
      [] e.a = "Stop"         -> s.startD # "none" /\ ~s.shutD      \* (stop() during a pending shutdown() is not scheduled)
      [] e.a = "Shutdown"     -> TRUE
      [] e.a = "Commit"       -> s.startD # "none"        \* (committing through a stopped consumer is not scheduled)
      [] e.a = "OffsetsDone"  -> s.req = "offsets"
      [] e.a = "OffsetsErr"   -> s.req = "offsets"
      [] e.a = "OFetchDone"   -> s.req = "ofetch"
      [] e.a = "OFetchErr"    -> s.req = "ofetch"
      [] e.a = "FetchDone"    -> s.req = "fetch" /\ s.parked = <<>>
                                 \* (a reply that fails to decode is not scheduled while it would be parked)
                                 /\ (e.w # <<>> /\ e.w[Len(e.w)] = BAD /\ e.w # <<-1>> => ~s.block)
      [] e.a = "FetchErr"     -> s.req = "fetch" /\ s.parked = <<>>
      [] e.a = "ProcDone"     -> s.procPending /\ ~SyncProc
      [] e.a = "RetryFire"    -> s.retry
      [] e.a = "CommitDone"   -> s.creq.on
      [] e.a = "CommitRetry"  -> s.ccall
      [] e.a = "Tick"         -> s.looper
      [] e.a = "ArmStop"      -> SyncProc /\ ~s.armed /\ s.startD # "none" /\ ~s.shutD
      [] OTHER -> FALSE

Step(s, e) ==
    LET st0 == St(s, <<>>) IN
    CASE e.a = "Start" ->
           DoFetch(St([s EXCEPT !.startD = "pending", !.fo = e.x, !.looper = Group /\ AutoCommitT], <<>>))
      [] e.a = "Stop" -> StopNow(st0)
      [] e.a = "Shutdown" ->
           IF s.startD = "none" \/ s.shutD THEN Act(st0, <<"fire", "shutdown", "fail", 0>>)
           ELSE LET s1 == [s EXCEPT !.shutting = TRUE, !.shutD = TRUE, !.maxAttempts = IF @ = 0 THEN 2 ELSE @] IN
                IF s.procPending THEN St([s1 EXCEPT !.shutWait = TRUE], <<>>) ELSE CommitAndStop(St(s1, <<>>))
      [] e.a = "Commit" ->
           IF ~Group THEN Act(st0, <<"fire", e.k, "fail", 0>>) ELSE Commit(st0, e.k)
      [] e.a = "OffsetsDone" -> DoFetch(St([s EXCEPT !.req = "none", !.ridx = 1, !.acount = 1, !.fo = e.x], <<>>))
      [] e.a = "OFetchDone" ->
           IF e.x = -1
           THEN DoFetch(St([s EXCEPT !.req = "none", !.ridx = 1, !.acount = 1, !.fo = IF Reset = "latest" THEN LATEST ELSE EARLIEST], <<>>))
           ELSE DoFetch(St([s EXCEPT !.req = "none", !.ridx = 1, !.acount = 1, !.fo = e.x + 1, !.lc = e.x], <<>>))
      [] e.a \in {"OffsetsErr", "OFetchErr"} ->
           LET s1 == [s EXCEPT !.req = "none"] IN
           IF s.startD = "fired" THEN St(s1, <<>>)
           ELSE IF Exhausted(s1) THEN FailStart(St(s1, <<>>)) ELSE RetryFetch(St(s1, <<>>), FALSE)
      [] e.a = "FetchDone" -> FetchReply(st0, e.w)
      [] e.a = "FetchErr" ->
           \* e.k: "range" (offset out of range) or any other failure
           LET s1 == [s EXCEPT !.req = "none"] IN
           IF s.startD = "fired" THEN St(s1, <<>>)
           ELSE IF e.k = "range" /\ Reset = "none" THEN FailStart(St(s1, <<>>))
           ELSE LET s2 == IF e.k = "range" THEN [s1 EXCEPT !.fo = IF Reset = "latest" THEN LATEST ELSE EARLIEST] ELSE s1 IN
                IF Exhausted(s2) THEN FailStart(St(s2, <<>>)) ELSE RetryFetch(St(s2, <<>>), FALSE)
      [] e.a = "ProcDone" -> ProcDone(st0, e.x = 1)
      [] e.a = "RetryFire" -> DoFetch(St([s EXCEPT !.retry = FALSE], <<>>))
      [] e.a = "CommitDone" ->
           LET c == s.creq s1 == [s EXCEPT !.creq.on = FALSE] IN
           CASE e.k = "ok" -> Deliver(St([s1 EXCEPT !.lc = c.off], <<>>), TRUE, c.off)
             [] e.k = "retriable" ->
                  IF s.maxAttempts # 0 /\ c.attempt >= s.maxAttempts THEN Deliver(St(s1, <<>>), FALSE, 0)
                  ELSE Act(St([s1 EXCEPT !.ccall = TRUE], <<>>), <<"timer", Delay(c.didx + 1)>>)
             [] OTHER -> Deliver(St(s1, <<>>), FALSE, 0)          \* fenced by the coordinator, or not a Kafka error
      [] e.a = "CommitRetry" -> SendCommit(st0, s.creq.didx + 1, s.creq.attempt + 1)
      [] e.a = "Tick" -> AutoCommit(st0, FALSE)
      [] e.a = "ArmStop" -> St([s EXCEPT !.armed = TRUE], <<>>)

-----------------------------------------------------------------------------
VARIABLES s, ev, out, h
vars == <<s, ev, out, h>>

InitHist == [ delivered |-> <<>>, procOK |-> {}, started |-> 0, startFires |-> 0, afterStop |-> FALSE, resolved |-> -1, procFailed |-> FALSE, acked |-> {}, runOK |-> {}, resetPending |-> FALSE, wasStopped |-> TRUE, obsCur |-> <<>> ]
Procs(o) == SelectSeq(o, LAMBDA a : a[1] = "proc")
RECURSIVE Flat(_)
Flat(q) == IF q = <<>> THEN <<>> ELSE Head(q)[2] \o Flat(Tail(q))
UpdHist(hh, pre, e, r) ==
    LET o == r.out
        sf == Cardinality({k \in DOMAIN o : o[k][1] = "fire" /\ o[k][2] = "start"})
        fetches == SelectSeq(o, LAMBDA a : a[1] = "fetch")
        nd == Flat(Procs(o))
        \* messages whose processing completed successfully in this step: a synchronous processor returns successfully
        \* by construction; an asynchronous one when the environment says so
        \* (the block the processor holds is known from the observable actions alone: the last one handed to it)
        okNow == IF SyncProc THEN SeqToSet(nd) ELSE IF e.a = "ProcDone" /\ e.x = 1 THEN SeqToSet(hh.obsCur) ELSE {}
        back == nd # <<>> /\ hh.resetPending /\ hh.delivered # <<>> /\ nd[1] <= hh.delivered[Len(hh.delivered)] IN
    \* A permitted discontinuity starts a new segment: an application restart, or -- once the offset-reset policy has
    \* fired -- the first delivery that goes back (messages of the reply being worked through still drain before it).
    [ delivered |-> IF e.a = "Start" \/ back THEN nd ELSE hh.delivered \o nd,
      resetPending |-> IF e.a = "Start" \/ back THEN FALSE ELSE hh.resetPending \/ (e.a = "FetchErr" /\ e.k = "range"),
      procOK |-> hh.procOK \cup okNow,
      obsCur |-> IF Procs(o) # <<>> THEN Procs(o)[Len(Procs(o))][2] ELSE IF e.a \in {"ProcDone", "Stop", "Start"} THEN <<>> ELSE hh.obsCur,
      \* ... those processed since the latest permitted discontinuity
      \* (a discontinuity -- restart, or the reset policy going back -- starts a new run of deliveries)
      runOK |-> IF e.a = "Start" THEN {} ELSE IF back THEN (IF SyncProc THEN SeqToSet(nd) ELSE {}) ELSE hh.runOK \cup okNow,
      started |-> hh.started + (IF e.a = "Start" THEN 1 ELSE 0),
      startFires |-> IF e.a = "Start" THEN sf ELSE hh.startFires + sf,
      afterStop |-> r.s.startD = "none",
      wasStopped |-> pre.startD = "none",      \* the event found the consumer stopped
      procFailed |-> IF e.a = "Start" THEN FALSE ELSE hh.procFailed \/ (e.a = "ProcDone" /\ e.x # 1),
      \* offsets the coordinator acknowledged (a commit it accepted) or reported (an offset fetch)
      acked |-> hh.acked \cup (IF e.a = "CommitDone" /\ e.k = "ok" THEN {pre.creq.off} ELSE {})
                        \cup (IF e.a = "OFetchDone" /\ e.x # -1 THEN {e.x} ELSE {}),
      \* the position the first fetch after start resolved to
      resolved |-> IF back THEN nd[1] ELSE IF e.a = "Start" THEN (IF fetches # <<>> THEN fetches[1][2] ELSE -1)
                   ELSE IF hh.resolved = -1 /\ fetches # <<>> THEN fetches[1][2] ELSE hh.resolved ]

Init == s = InitState /\ ev = Ev("Init", 0) /\ out = <<>> /\ h = InitHist

\* replies the environment can give to a fetch at offset fo: the next k log entries, optionally preceded by
\* `pre` earlier ones (a compressed batch is returned whole), or "too small", or nothing
After(fo) == SelectSeq(LogSeq, LAMBDA o : o >= fo)
Before(fo) == SelectSeq(LogSeq, LAMBDA o : o < fo)
Windows(fo) ==
    {SubSeq(Before(fo), Len(Before(fo)) - p + 1, Len(Before(fo))) \o SubSeq(After(fo), 1, k) :
        p \in 0..(IF Len(Before(fo)) < 1 THEN Len(Before(fo)) ELSE 1), k \in 0..(IF Len(After(fo)) < 3 THEN Len(After(fo)) ELSE 3)}
    \cup {<<-1>>}
    \cup {SubSeq(After(fo), 1, k) \o <<BAD>> : k \in 0..(IF Len(After(fo)) < 2 THEN Len(After(fo)) ELSE 2)}
EvApp == {[a |-> "Start", x |-> p, w |-> <<>>, k |-> ""] : p \in {EARLIEST, LATEST, COMMITTED, LogStart, LogStart + 1}}
         \cup {[a |-> a, x |-> 0, w |-> <<>>, k |-> ""] : a \in {"Stop", "Shutdown", "RetryFire", "CommitRetry", "Tick", "OffsetsErr", "OFetchErr", "ArmStop"}}
         \cup {[a |-> "OffsetsDone", x |-> o, w |-> <<>>, k |-> ""] : o \in {LogStart, LogEnd}}
         \cup {[a |-> "OFetchDone", x |-> o, w |-> <<>>, k |-> ""] : o \in {-1} \cup Log}
         \* (x = 1: success; 0: the processor fails; 2: it fails with a cancellation of its own -- e.g. a watchdog --
         \*  which is a failure like any other unless stop() caused it)
         \cup {[a |-> "ProcDone", x |-> x, w |-> <<>>, k |-> ""] : x \in {0, 1, 2}}
EvStr == {[a |-> "Commit", x |-> 0, w |-> <<>>, k |-> c] : c \in {"c1", "c2"}}
         \cup {[a |-> "FetchErr", x |-> 0, w |-> <<>>, k |-> k] : k \in {"range", "kafka"}}
         \cup {[a |-> "CommitDone", x |-> 0, w |-> <<>>, k |-> k] : k \in {"ok", "retriable", "fenced"}}
EvFetch(st) == IF st.fo >= 0 THEN {[a |-> "FetchDone", x |-> 0, w |-> w, k |-> ""] : w \in Windows(st.fo)} ELSE {}
Fire(e) ==
    /\ Possible(s, e)
    /\ (e.a = "Start" /\ e.x = COMMITTED => Group)
    /\ LET r == Step(s, e) IN s' = r.s /\ ev' = e /\ out' = r.out /\ h' = UpdHist(h, s, e, r)
Next == (\E e \in EvApp : Fire(e)) \/ (\E e \in EvStr : Fire(e)) \/ (\E e \in EvFetch(s) : Fire(e))
Spec == Init /\ [][Next]_vars
Bound == TLCGet("level") <= MaxDepth

-----------------------------------------------------------------------------
(* Property clauses *)
\* C02: offsets reach the processor in strictly increasing order, each once
C02_order == \A i \in 1..(Len(h.delivered) - 1) : h.delivered[i] < h.delivered[i + 1]
\* ... with no omission: consecutive deliveries are consecutive entries of the log, the first is the first
\* entry at or after the resolved position
C02_no_gap ==
    /\ \A i \in 1..(Len(h.delivered) - 1) : ~\E o \in Log : h.delivered[i] < o /\ o < h.delivered[i + 1]
    /\ (h.delivered # <<>> /\ h.resolved >= 0 =>
            h.delivered[1] \in Log /\ ~\E o \in Log : h.resolved <= o /\ o < h.delivered[1])
\* the processor is not invoked while its previous result is pending
C02_no_overlap == Len(Procs(out)) <= 1 \/ SyncProc
\* C03: what is committed is the last processed offset, and everything delivered up to it was processed successfully
\* (stated over the observable actions and the history built from them only)
C03_behind_obs ==
    \A k \in DOMAIN out : (out[k][1] = "commit" /\ out[k][2] \in h.runOK) =>
        \* (an offset processed before an application-requested restart is outside this run's deliveries; what is handed
        \*  to the processor later in the same event -- a parked reply -- was not delivered when the commit was issued)
              (LET later == UNION {SeqToSet(out[j][2]) : j \in {j2 \in DOMAIN out : j2 > k /\ out[j2][1] = "proc"}} IN
              \A i \in DOMAIN h.delivered : (h.delivered[i] <= out[k][2] /\ h.delivered[i] \notin later) => h.delivered[i] \in h.procOK)
C03_behind == C03_behind_obs /\ \A k \in DOMAIN out : out[k][1] = "commit" => out[k][2] = s.creq.off
C03_recorded == s.lc = -1 \/ s.lc \in h.acked
\* C13: the start Deferred fires at most once per start; nothing happens once stopped
C13_start_once == h.startFires <= 1
C13_quiet_after_stop ==
    (h.wasStopped /\ s.startD = "none" /\ ev.a \notin {"Start", "Stop", "Shutdown", "Commit", "Init", "CommitDone", "ProcDone"}) => out = <<>>
C13_stopped_clean ==
    s.startD = "none" => ~s.retry /\ ~s.ccall /\ ~s.looper /\ s.req = "none" /\ ~s.creq.on /\ ~s.procPending
=============================================================================
