----------------------------- MODULE Partitioner -----------------------------
(***************************************************************************)
(* afkak's partitioners (property C18).                                    *)
(*                                                                         *)
(* Hashed: a pure function of the key bytes and the list supplied with the *)
(* call: Murmur2!Pick.  A partitioner object lives as long as the producer *)
(* and is called with whatever list the metadata currently holds, so the   *)
(* model is a history of calls with changing lists; the answer must never  *)
(* depend on the history.                                                  *)
(*                                                                         *)
(* Round robin: cycles over the list; when the list supplied differs from  *)
(* the current one it restarts a cycle over the new list at an arbitrary   *)
(* position (fixed or random start).  Fairness: within a run of selections *)
(* over an unchanged list of n partitions every window of n consecutive    *)
(* selections is a permutation of the list (hence k*n selections choose    *)
(* each partition exactly k times).                                        *)
(***************************************************************************)
EXTENDS Murmur2, FiniteSets, TLC

CONSTANTS Lists,      \* ascending partition lists
          Keys,       \* byte-string keys for the hashed partitioner
          MaxRun      \* bound on run length (state constraint)

Range(f) == {f[i] : i \in DOMAIN f}
Index(L, p) == CHOOSE i \in DOMAIN L : L[i] = p

InitState == [cur |-> <<>>, pos |-> 1, run |-> <<>>]

\* e: [a |-> "rr", list, start]   start (0-based) is used only when the list changed
\*    [a |-> "hash", list, key]
StepRR(s, L, start) ==
    LET changed == s.cur # L
        p == IF changed THEN start + 1 ELSE s.pos
        r == L[p]
    IN [s |-> [cur |-> L, pos |-> (p % Len(L)) + 1, run |-> IF changed THEN <<r>> ELSE Append(s.run, r)],
        out |-> r]
StepHash(s, L, key) == [s |-> s, out |-> Pick(key, L)]

VARIABLES s, ev, out
vars == <<s, ev, out>>
Init == s = InitState /\ ev = [a |-> "init"] /\ out = 0
Next ==
    \/ \E L \in Lists, k \in 0..3 : k < Len(L) /\
          LET r == StepRR(s, L, k) IN s' = r.s /\ out' = r.out /\ ev' = [a |-> "rr", list |-> L, start |-> k]
    \/ \E L \in Lists, key \in Keys :
          LET r == StepHash(s, L, key) IN s' = r.s /\ out' = r.out /\ ev' = [a |-> "hash", list |-> L, key |-> key]
Spec == Init /\ [][Next]_vars
Bound == Len(s.run) <= MaxRun

\* every window of n consecutive selections of the current run is a permutation of the list
Fair(run, L) ==
    LET n == Len(L) IN
    \A i \in 1..(Len(run) - n + 1) : {run[j] : j \in i..(i + n - 1)} = Range(L)
C18_rr_fair == Fair(s.run, s.cur)
C18_rr_in_range == \A i \in DOMAIN s.run : s.run[i] \in Range(s.cur)
C18_hash_in_range == ev.a = "hash" => out \in Range(ev.list)
=============================================================================
