-------------------------------- MODULE CRC32 --------------------------------
(***************************************************************************)
(* CRC-32 (IEEE 802.3, reflected, polynomial 0xEDB88320) over a byte       *)
(* sequence, as Kafka message formats 0 and 1 use it.  TLC integers are    *)
(* 32-bit signed, so a word is a pair <<hi, lo>> of 16-bit limbs.          *)
(***************************************************************************)
EXTENDS Naturals, Sequences, Bitwise

CX(a, b) == <<a[1] ^^ b[1], a[2] ^^ b[2]>>
CShr1(a) == <<a[1] \div 2, (a[2] \div 2) + (a[1] % 2) * 32768>>
CShr8(a) == <<a[1] \div 256, (a[2] \div 256) + (a[1] % 256) * 256>>
Poly == <<60856, 33568>>       \* 0xEDB88320

RECURSIVE Bits8(_, _)
Bits8(c, k) == IF k = 0 THEN c ELSE Bits8(IF c[2] % 2 = 1 THEN CX(CShr1(c), Poly) ELSE CShr1(c), k - 1)
CrcTable == [i \in 0..255 |-> Bits8(<<0, i>>, 8)]

RECURSIVE CrcGo(_, _, _)
CrcGo(c, data, i) ==
    IF i > Len(data) THEN c
    ELSE CrcGo(CX(CrcTable[(c[2] ^^ data[i]) % 256], CShr8(c)), data, i + 1)

\* CRC of a byte sequence, as <<hi16, lo16>>
Crc32(data) == CX(CrcGo(<<65535, 65535>>, data, 1), <<65535, 65535>>)
\* big-endian bytes of a word
WordBytes(w) == <<w[1] \div 256, w[1] % 256, w[2] \div 256, w[2] % 256>>

ASSUME CrcTable[1] = <<30471, 12438>>                                         \* 0x77073096
ASSUME Crc32(<<49, 50, 51, 52, 53, 54, 55, 56, 57>>) = <<52212, 14630>>       \* "123456789" -> 0xCBF43926
=============================================================================
