--------------------------- MODULE ClientRouting ---------------------------
(***************************************************************************)
(* afkak's KafkaClient at the level of OPERATIONS and BROKER REQUESTS:     *)
(* metadata cache, leader / coordinator routing, broker-agnostic requests  *)
(* (known brokers, connected first, then the bootstrap hosts), per-request *)
(* timeouts, and close.  Properties C07, C08, C11, C20.                    *)
(*                                                                         *)
(* Grain: one action = one reactor event with all synchronous              *)
(* consequences.  Connection management is abstracted ("auto-pilot"): a    *)
(* broker client whose broker is up at the address the client has cached   *)
(* is connected as soon as it has something to send; the reconnect loop of *)
(* _KafkaBrokerClient is the subject of BrokerConn.tla.  Time advances     *)
(* only in Timeout events: all request timers armed since the previous     *)
(* advance are due at the same instant and fire together, in issue order.  *)
(*                                                                         *)
(* Cluster: brokers 1..3; bootstrap hosts 11, 12 = the initial addresses   *)
(* of brokers 1 and 2; topics "a" (partitions 0,1) and "b" (partition 0);  *)
(* one consumer group.  A broker address has a generation (1 or 2): a      *)
(* restarted broker comes back at its generation-2 address.                *)
(***************************************************************************)
EXTENDS Naturals, Integers, Sequences, FiniteSets, TLC

CONSTANTS MaxOps, MaxReqs, MaxDepth, DisconnectOnTimeout, EvKinds,
          PLSet, AckSet, FoeSet, ErrSet, FaultBrokers, MoveTPs, MetaSet    \* event alphabet of the design model

B == {1, 2, 3}
Boot == {11, 12}
BootBroker(t) == t - 10
Topics == {"a", "b"}
TPs == {<<"a", 0>>, <<"a", 1>>, <<"b", 0>>}
PartsOf(t) == {tp[2] : tp \in {x \in TPs : x[1] = t}}
Range(f) == {f[i] : i \in DOMAIN f}
SeqToSet(q) == {q[i] : i \in DOMAIN q}
NOT_LEADER == 6
NOT_COORD == 16

InitState ==
    [ \* truth
      leader |-> [tp \in TPs |-> IF tp = <<"a", 1>> THEN 2 ELSE 1], up |-> [b \in B |-> TRUE],
      gen |-> [b \in B |-> 1], coord |-> 2,
      listed |-> [b \in B |-> TRUE],               \* still a member of the cluster (a retired broker stays up but is no longer listed)
      \* client cache (public accessors)
      cb |-> [b \in B |-> 0],                       \* cached address generation of broker b (0: unknown)
      cparts |-> [t \in Topics |-> "absent"],       \* absent | known
      cleader |-> [tp \in TPs |-> -1],              \* -1 absent, 0 known to have no leader, else broker
      cerr |-> [t \in Topics |-> -1],               \* -1 absent, else topic error code
      ccoord |-> 0,
      \* broker clients
      cl |-> [b \in B |-> FALSE], conn |-> [b \in B |-> FALSE], loop |-> [b \in B |-> FALSE],
      closingConns |-> <<>>,                        \* brokers whose (closed) client still has a connection
      inbox |-> [t \in B \cup Boot |-> <<>>],       \* requests the broker side has received, unanswered
      reqs |-> <<>>, ops |-> <<>>, epoch |-> 0,
      cfetch |-> <<>>,                              \* operations waiting on the one in-flight coordinator lookup (its owner first)
      closing |-> FALSE, closeD |-> "none" ]

NoOut == [ issued |-> <<>>, wire |-> {}, fired |-> {}, lost |-> {}, closeFired |-> FALSE, usedOrd |-> FALSE, usedBord |-> FALSE ]
Cache(s) == [parts |-> s.cparts, leader |-> s.cleader, err |-> s.cerr, coord |-> s.ccoord]

Reach(s, t) == IF t \in B THEN s.up[t] /\ s.cb[t] = s.gen[t]
               ELSE s.up[BootBroker(t)] /\ s.gen[BootBroker(t)] = 1

Live(s, r) == s.reqs[r].live
PendingOn(s, t) == SelectSeq([i \in DOMAIN s.reqs |-> i], LAMBDA r : s.reqs[r].tgt = t /\ s.reqs[r].live)

WireRec(q, r) == <<q.tgt, q.kind, q.tps, q.topics>>

\* ---------------------------------------------------------------- state threading
\* st = [s, out, sig]: sig is a sequence of pending signals, processed depth-first
St(s, out, sig) == [s |-> s, out |-> out, sig |-> sig]

\* Put request r on the wire towards its target if reachable.  A broker client that was not
\* connected connects first and then writes everything it holds unsent, in issue order.
\* Returns the ids written that expected no reply (they complete by being written).
SendReq(s, out, r) ==
    LET q == s.reqs[r] t == q.tgt IN
    IF ~Reach(s, t) THEN
        [s |-> IF t \in B THEN [s EXCEPT !.loop[t] = TRUE] ELSE s, out |-> out, sent |-> FALSE, noreply |-> <<>>]
    ELSE
        LET batch == IF t \in B /\ ~s.conn[t]
                     THEN SelectSeq(PendingOn(s, t), LAMBDA x : ~s.reqs[x].sent) ELSE <<r>>
            bs == SeqToSet(batch)
        IN [s |-> [s EXCEPT !.reqs = [i \in DOMAIN @ |-> IF i \in bs THEN [@[i] EXCEPT !.sent = TRUE] ELSE @[i]],
                            !.inbox[t] = @ \o SelectSeq(batch, LAMBDA x : s.reqs[x].expect),
                            !.conn = IF t \in B THEN [@ EXCEPT ![t] = TRUE] ELSE @,
                            !.loop = IF t \in B THEN [@ EXCEPT ![t] = FALSE] ELSE @],
            out |-> [out EXCEPT !.wire = @ \cup {WireRec(s.reqs[x], x) : x \in bs}],
            sent |-> TRUE, noreply |-> SelectSeq(batch, LAMBDA x : ~s.reqs[x].expect)]

NoReplyDone(s, ids) == [s EXCEPT !.reqs = [i \in DOMAIN @ |-> IF i \in SeqToSet(ids) THEN [@[i] EXCEPT !.live = FALSE] ELSE @[i]]]
DoneSigs(ids) == [i \in DOMAIN ids |-> [k |-> "done", r |-> ids[i], ok |-> TRUE, why |-> "none"]]

\* Issue a new broker request; a request that expects no reply completes as soon as it is written.
Issue(st, op, kind, tgt, tps, topics, expect) ==
    LET s == st.s
        r == Len(s.reqs) + 1
        q == [op |-> op, kind |-> kind, tgt |-> tgt, tps |-> tps, topics |-> topics, expect |-> expect, epoch |-> s.epoch,
              live |-> TRUE, sent |-> FALSE, codes |-> <<>>, ok |-> FALSE, fin |-> FALSE, view |-> <<>>]
        s1 == [s EXCEPT !.reqs = Append(@, q), !.cl = IF tgt \in B THEN [@ EXCEPT ![tgt] = TRUE] ELSE @]
        out1 == [st.out EXCEPT !.issued = Append(@, <<tgt, kind, tps, topics>>)]
        w == SendReq(s1, out1, r)
    IN IF tgt \in Boot /\ ~w.sent
       THEN \* bootstrap connect refused: fails at once
            St([w.s EXCEPT !.reqs[r].live = FALSE], w.out, <<[k |-> "done", r |-> r, ok |-> FALSE, why |-> "refused"]>> \o st.sig)
       ELSE St(NoReplyDone(w.s, w.noreply), w.out, DoneSigs(w.noreply) \o st.sig)

\* ---------------------------------------------------------------- metadata merge
\* view: [brokers: b -> gen (0 = not listed), topics: set covered, err: t -> code, leader: tp -> 0|b, full: BOOLEAN]
ViewOf(s, topicSeq, err) ==
    LET topics == SeqToSet(topicSeq)
        cov == IF topics = {} THEN Topics ELSE topics IN
    [ brokers |-> [b \in B |-> IF s.up[b] /\ s.listed[b] THEN s.gen[b] ELSE 0], topics |-> cov,
      err |-> [t \in Topics |-> err],
      leader |-> [tp \in TPs |-> IF s.leader[tp] # 0 /\ s.up[s.leader[tp]] /\ s.listed[s.leader[tp]] THEN s.leader[tp] ELSE 0],
      full |-> topics = {} ]

RECURSIVE Run(_, _)
Merge(st, view, e) ==
    LET s == st.s
        listed == {b \in B : view.brokers[b] # 0}
        prune == IF view.full /\ listed # {} THEN {b \in B : s.cl[b] /\ b \notin listed} ELSE {}
        cb2 == [b \in B |-> IF b \in listed THEN view.brokers[b] ELSE s.cb[b]]
        s1 == [s EXCEPT !.cb = cb2]
        \* The broker list is applied first: the requests of a pruned client fail, and everything their failure sets off
        \* (operations completing with failed payloads and invalidating metadata, broker-agnostic requests moving on
        \* to the next host) runs to completion BEFORE the topic part of the same answer is written to the cache.
        WriteTopics(sx) == [sx EXCEPT
                        !.cparts = [t \in Topics |-> IF t \in view.topics
                                                     THEN (IF view.err[t] = 0 THEN "known" ELSE "absent") ELSE @[t]],
                        !.cerr = [t \in Topics |-> IF t \in view.topics THEN view.err[t] ELSE @[t]],
                        !.cleader = [tp \in TPs |-> IF tp[1] \in view.topics
                                                    THEN (IF view.err[tp[1]] = 0 THEN view.leader[tp] ELSE -1) ELSE @[tp]]]
    IN \* closing a pruned client fails its pending requests, newest first (close() pops them from the end), and asks for
       \* its connection to be closed
       LET RECURSIVE CloseAll(_, _)
           CloseAll(stx, bs) ==
              IF bs = {} THEN stx
              ELSE LET b == CHOOSE x \in bs : TRUE
                       pend == PendingOn(stx.s, b)
                       s2 == [stx.s EXCEPT !.cl[b] = FALSE, !.loop[b] = FALSE,
                                           !.closingConns = IF stx.s.conn[b] THEN Append(@, b) ELSE @,
                                           !.conn[b] = FALSE, !.inbox[b] = <<>>,
                                           !.reqs = [i \in DOMAIN @ |-> IF i \in SeqToSet(pend) THEN [@[i] EXCEPT !.live = FALSE] ELSE @[i]]]
                       o2 == [stx.out EXCEPT !.lost = IF stx.s.conn[b] THEN @ \cup {b} ELSE @]
                   IN CloseAll(St(s2, o2, stx.sig \o [i \in DOMAIN pend |-> [k |-> "done", r |-> pend[Len(pend) + 1 - i], ok |-> FALSE, why |-> "closed"]]),
                               bs \ {b})
           ran == Run(CloseAll(St(s1, st.out, <<>>), prune), e)
       IN St(WriteTopics(ran.s), ran.out, st.sig)

\* ---------------------------------------------------------------- the broker-agnostic request machine
\* op.u = [cands: Seq(target) still to try, boot: 0 | 1, what: "meta" | "coord", topics]
Connected(s, b) == s.cl[b] /\ s.conn[b]
Known(s) == {b \in B : s.cb[b] # 0}

StartUnaware(st, op, what, topics, e) ==
    LET s == st.s
        ord == SelectSeq(e.ord, LAMBDA b : b \in Known(s))
        cands == SelectSeq(ord, LAMBDA b : Connected(s, b)) \o SelectSeq(ord, LAMBDA b : ~Connected(s, b))
        s1 == [s EXCEPT !.ops[op].st = "unaware",
                        !.ops[op].u = [cands |-> cands, boot |-> 0, what |-> what, topics |-> topics]]
    IN St(s1, [st.out EXCEPT !.usedOrd = TRUE], <<[k |-> "next", op |-> op]>> \o st.sig)

\* try the next candidate of op's broker-agnostic request
NextCand(st, op, e) ==
    LET s == st.s o == s.ops[op] u == o.u IN
    IF s.closing THEN \* the client was closed under the operation
         IF u.what = "coord" THEN St(s, st.out, <<[k |-> "ufail", op |-> op]>> \o st.sig)
         ELSE St([s EXCEPT !.ops[op].st = "done"], [st.out EXCEPT !.fired = @ \cup {<<op, "failed", "closed">>}], st.sig)
    ELSE IF u.cands # <<>>
    THEN Issue(St([s EXCEPT !.ops[op].u.cands = Tail(@)], st.out, st.sig), op, u.what, Head(u.cands),
               <<>>, u.topics, TRUE)
    ELSE IF u.boot = 0
    THEN \* every known broker failed (or none is known): the bootstrap hosts, in shuffled order
         LET s1 == [s EXCEPT !.ops[op].u.boot = 1, !.ops[op].u.cands = e.bord]
         IN St(s1, [st.out EXCEPT !.usedBord = TRUE], <<[k |-> "next", op |-> op]>> \o st.sig)
    ELSE St(s, st.out, <<[k |-> "ufail", op |-> op]>> \o st.sig)

\* ---------------------------------------------------------------- operations
FirstIndex(seq, x) == CHOOSE i \in DOMAIN seq : seq[i] = x /\ \A j \in 1..(i - 1) : seq[j] # x
Dedup(seq) == SelectSeq([i \in DOMAIN seq |-> IF FirstIndex(seq, seq[i]) = i THEN seq[i] ELSE 0], LAMBDA x : x # 0)

Finish(st, op, kind, detail) ==
    St([st.s EXCEPT !.ops[op].st = "done"], [st.out EXCEPT !.fired = @ \cup {<<op, kind, detail>>}], st.sig)

\* produce: resolve the leader of payload i, or, when all are resolved, send one request per broker
Resolve(st, op, e) ==
    LET s == st.s o == s.ops[op] IN
    IF o.i > Len(o.pl)
    THEN LET leaders == o.res          \* as resolved, payload by payload
             brokers == Dedup(leaders)
             RECURSIVE Each(_, _)
             Each(stx, k) ==
                IF k > Len(brokers) THEN stx
                ELSE LET b == brokers[k]
                         idx == SelectSeq([j \in DOMAIN o.pl |-> j], LAMBDA j : leaders[j] = b)
                         tps0 == [j \in DOMAIN idx |-> o.pl[idx[j]]]
                         \* (the request groups its partitions by topic, topics in order of first appearance)
                         tn0 == [j \in DOMAIN tps0 |-> tps0[j][1]]
                         firsts == SelectSeq([j \in DOMAIN tn0 |-> j], LAMBDA j : FirstIndex(tn0, tn0[j]) = j)
                         tnames == [j \in DOMAIN firsts |-> tn0[firsts[j]]]
                         RECURSIVE ByTopic(_)
                         ByTopic(k2) == IF k2 > Len(tnames) THEN <<>>
                                        ELSE SelectSeq(tps0, LAMBDA tp : tp[1] = tnames[k2]) \o ByTopic(k2 + 1)
                         tps == ByTopic(1)
                         r == Len(stx.s.reqs) + 1
                         st1 == St([stx.s EXCEPT !.ops[op].subs = Append(@, r)], stx.out, stx.sig)
                     IN Each(Issue(st1, op, "produce", b, tps, <<>>, o.acks # 0), k + 1)
         IN Each(St([s EXCEPT !.ops[op].st = "inflight"], st.out, st.sig), 1)
    ELSE LET tp == o.pl[o.i] IN
         IF s.cleader[tp] <= 0 /\ ~o.asked
         THEN \* not cached, or cached as leaderless: reload the topic's metadata first
              StartUnaware(St([s EXCEPT !.ops[op].asked = TRUE], st.out, st.sig), op, "meta", <<tp[1]>>, e)
         ELSE IF s.cleader[tp] = -1 THEN Finish(st, op, "failed", "partition_unavailable")
         ELSE IF s.cleader[tp] = 0 THEN Finish(st, op, "failed", "leader_unavailable")
         ELSE St([s EXCEPT !.ops[op].i = @ + 1, !.ops[op].asked = FALSE, !.ops[op].res = Append(@, s.cleader[tp])],
                 st.out, <<[k |-> "resolve", op |-> op]>> \o st.sig)

CommitGo(st, op, e) ==
    LET s == st.s o == s.ops[op] IN
    IF s.ccoord = 0 /\ ~o.asked
    THEN IF s.cfetch # <<>>
         THEN \* a lookup for the group is already in flight: wait for its result
              St([s EXCEPT !.ops[op].asked = TRUE, !.ops[op].st = "waiting", !.cfetch = Append(@, op)], st.out, st.sig)
         ELSE StartUnaware(St([s EXCEPT !.ops[op].asked = TRUE, !.cfetch = <<op>>], st.out, st.sig), op, "coord", <<>>, e)
    ELSE IF s.ccoord = 0 THEN Finish(st, op, "failed", "coordinator_unavailable")
    ELSE LET r == Len(s.reqs) + 1
             st1 == St([s EXCEPT !.ops[op].st = "inflight", !.ops[op].subs = <<r>>], st.out, st.sig)
         IN Issue(st1, op, "commit", s.ccoord, <<>>, <<>>, TRUE)

\* all per-broker requests of a produce/commit operation have completed
Collect(st, op) ==
    LET s == st.s o == s.ops[op]
        failedReqs == SelectSeq(o.subs, LAMBDA r : ~s.reqs[r].ok)
        CodeOf(tp) == LET r == CHOOSE x \in SeqToSet(o.subs) : \E i \in DOMAIN s.reqs[x].tps : s.reqs[x].tps[i] = tp
                          i == CHOOSE j \in DOMAIN s.reqs[r].tps : s.reqs[r].tps[j] = tp
                      IN IF s.reqs[r].ok /\ s.reqs[r].codes # <<>> THEN s.reqs[r].codes[i] ELSE -1
        failedTps == SelectSeq(o.pl, LAMBDA tp : \E r \in SeqToSet(failedReqs) : tp \in SeqToSet(s.reqs[r].tps))
        okTps == SelectSeq(o.pl, LAMBDA tp : tp \notin SeqToSet(failedTps))
    IN IF o.kind = "commit"
       THEN LET r == o.subs[1] IN
            IF ~s.reqs[r].ok
            THEN \* failed send: everything cached is dropped
                 Finish(St([s EXCEPT !.cparts = [t \in Topics |-> "absent"], !.cleader = [tp \in TPs |-> -1],
                                     !.cerr = [t \in Topics |-> -1], !.ccoord = 0], st.out, st.sig),
                        op, "failed_payloads", <<<<>>, <<"commit">>>>)
            ELSE IF s.reqs[r].codes[1] = 0 THEN Finish(st, op, "ok", <<0>>)
            ELSE IF s.reqs[r].codes[1] \in {14, 15, 16}
            THEN Finish(St([s EXCEPT !.ccoord = 0], st.out, st.sig), op, "failed", s.reqs[r].codes[1])
            ELSE IF s.reqs[r].codes[1] \in {3, 6}
            THEN \* the commit's payload is for topic "a": these codes invalidate that topic's metadata
                 Finish(St([s EXCEPT !.cparts["a"] = "absent", !.cerr["a"] = -1,
                                     !.cleader = [tp \in TPs |-> IF tp[1] = "a" THEN -1 ELSE @[tp]]], st.out, st.sig),
                        op, "failed", s.reqs[r].codes[1])
            ELSE Finish(st, op, "failed", s.reqs[r].codes[1])
       ELSE IF failedReqs # <<>>
       THEN Finish(St([s EXCEPT !.cparts = [t \in Topics |-> "absent"], !.cleader = [tp \in TPs |-> -1],
                               !.cerr = [t \in Topics |-> -1], !.ccoord = 0], st.out, st.sig),
                   op, "failed_payloads",
                   <<(IF o.acks = 0 THEN <<>> ELSE [i \in DOMAIN okTps |-> <<okTps[i], CodeOf(okTps[i])>>]), failedTps>>)
       ELSE IF o.acks = 0 THEN Finish(st, op, "ok", <<>>)
       ELSE \* responses in payload order; 3/6 invalidate the topic; with fail_on_error the first error is raised
            LET codes == [i \in DOMAIN o.pl |-> CodeOf(o.pl[i])]
                bad == {i \in DOMAIN codes : codes[i] # 0}
                first == IF bad = {} THEN 0 ELSE CHOOSE i \in bad : \A j \in bad : i <= j
                resetT == IF o.foe
                          THEN (IF first # 0 /\ codes[first] \in {3, 6} THEN {o.pl[first][1]} ELSE {})
                          ELSE {o.pl[i][1] : i \in {j \in bad : codes[j] \in {3, 6}}}
                s1 == [s EXCEPT !.cparts = [t \in Topics |-> IF t \in resetT THEN "absent" ELSE @[t]],
                                !.cerr = [t \in Topics |-> IF t \in resetT THEN -1 ELSE @[t]],
                                !.cleader = [tp \in TPs |-> IF tp[1] \in resetT THEN -1 ELSE @[tp]]]
            IN IF o.foe /\ first # 0 THEN Finish(St(s1, st.out, st.sig), op, "failed", codes[first])
               ELSE IF ~o.foe /\ \E i \in bad : codes[i] \notin {3, 6}
               THEN \* error codes other than 3/6 are raised even when the caller asked for them as data
                    LET i0 == CHOOSE i \in bad : codes[i] \notin {3, 6} /\ \A j \in bad : codes[j] \notin {3, 6} => i <= j
                        rT == {o.pl[i][1] : i \in {j \in bad : codes[j] \in {3, 6} /\ j < i0}}
                        s2 == [s EXCEPT !.cparts = [t \in Topics |-> IF t \in rT THEN "absent" ELSE @[t]],
                                        !.cerr = [t \in Topics |-> IF t \in rT THEN -1 ELSE @[t]],
                                        !.cleader = [tp \in TPs |-> IF tp[1] \in rT THEN -1 ELSE @[tp]]]
                    IN Finish(St(s2, st.out, st.sig), op, "failed", codes[i0])
               ELSE Finish(St(s1, st.out, st.sig), op, "ok", [i \in DOMAIN o.pl |-> <<o.pl[i], codes[i]>>])

\* a broker request completed
Done(st, r, ok, why, e) ==
    LET s0 == st.s
        s == [s0 EXCEPT !.reqs[r].live = FALSE, !.reqs[r].ok = ok, !.reqs[r].fin = TRUE]
        q == s.reqs[r] op == q.op o == s.ops[op]
        \* an ephemeral bootstrap connection is closed once its request is over
        stb == St(IF q.tgt \in Boot THEN [s EXCEPT !.inbox[q.tgt] = SelectSeq(@, LAMBDA x : x # r)] ELSE s, st.out, st.sig)
    IN IF o.st = "done" THEN stb
       ELSE IF q.kind \in {"meta", "coord"}
       THEN IF ~ok THEN St(stb.s, stb.out, <<[k |-> "next", op |-> op]>> \o stb.sig)
            ELSE IF q.kind = "meta"
            THEN LET m == Merge(stb, q.view, e) IN
                 IF o.kind = "meta" THEN Finish(m, op, "ok", <<>>)
                 ELSE St([m.s EXCEPT !.ops[op].st = "resolving"], m.out, <<[k |-> "resolve", op |-> op]>> \o m.sig)
            ELSE \* coordinator lookup answered
                 LET ws == stb.s.cfetch
                     go == [i \in DOMAIN ws |-> [k |-> "commit", op |-> ws[i]]]
                     wake(sx) == [sx EXCEPT !.cfetch = <<>>,
                                            !.ops = [i \in DOMAIN @ |-> IF i \in SeqToSet(ws) THEN [@[i] EXCEPT !.st = "resolving"] ELSE @[i]]]
                 IN IF q.codes[1] # 0
                    THEN St(wake([stb.s EXCEPT !.ccoord = 0]), stb.out, go \o stb.sig)
                    ELSE LET c == q.view.coord
                         IN St(wake([stb.s EXCEPT !.ccoord = c, !.cb[c] = q.view.gen]), stb.out, go \o stb.sig)
       ELSE IF \A x \in SeqToSet(o.subs) : s.reqs[x].fin
            THEN Collect(stb, op) ELSE stb

\* the broker-agnostic request of op has failed on every host
UFail(st, op) ==
    LET o == st.s.ops[op] IN
    IF o.kind = "meta" THEN Finish(st, op, "failed", "unavailable")
    ELSE IF o.kind = "produce" THEN Finish(st, op, "failed", "unavailable")
    ELSE \* coordinator lookup failed: the commit (and every commit waiting on the lookup) fails
         LET ws == st.s.cfetch
             go == [i \in DOMAIN ws |-> [k |-> "commit", op |-> ws[i]]]
         IN St([st.s EXCEPT !.ccoord = 0, !.cfetch = <<>>,
                            !.ops = [i \in DOMAIN @ |-> IF i \in SeqToSet(ws) THEN [@[i] EXCEPT !.st = "resolving"] ELSE @[i]]],
               st.out, go \o st.sig)

Run(st, e) ==
    IF st.sig = <<>> THEN st
    ELSE LET g == Head(st.sig) st1 == St(st.s, st.out, Tail(st.sig)) IN
         Run(CASE g.k = "next"    -> NextCand(st1, g.op, e)
               [] g.k = "resolve" -> Resolve(st1, g.op, e)
               [] g.k = "commit"  -> CommitGo(st1, g.op, e)
               [] g.k = "done"    -> Done(st1, g.r, g.ok, g.why, e)
               [] g.k = "ufail"   -> UFail(st1, g.op), e)

\* connections the auto-pilot can (re-)establish: reconnect loops whose broker became reachable
Settle(st) ==
    LET RECURSIVE Go(_, _)
        Go(stx, bs) ==
           IF bs = {} THEN stx
           ELSE LET b == CHOOSE x \in bs : \A y \in bs : x <= y
                    pend == SelectSeq(PendingOn(stx.s, b), LAMBDA r : ~stx.s.reqs[r].sent)
                IN IF pend = <<>>
                   THEN Go(St([stx.s EXCEPT !.conn[b] = TRUE, !.loop[b] = FALSE], stx.out, stx.sig), bs \ {b})
                   ELSE LET w == SendReq([stx.s EXCEPT !.conn[b] = FALSE], stx.out, pend[1])
                        IN Go(St(NoReplyDone(w.s, w.noreply), w.out, stx.sig \o DoneSigs(w.noreply)), bs \ {b})
    IN Go(st, {b \in B : st.s.cl[b] /\ st.s.loop[b] /\ Reach(st.s, b)})

\* ---------------------------------------------------------------- events
Ev0 == [a |-> "Init", op |-> 0, t |-> 0, x |-> 0, pl |-> <<>>, ord |-> <<>>, bord |-> <<>>, k |-> <<>>]

NewOp(s, rec) == [s EXCEPT !.ops = Append(@, rec)]
OpBase == [kind |-> "", st |-> "resolving", pl |-> <<>>, acks |-> 1, foe |-> TRUE, topics |-> <<>>, i |-> 1, res |-> <<>>,
           asked |-> FALSE, u |-> [cands |-> <<>>, boot |-> 0, what |-> "", topics |-> <<>>], subs |-> <<>>]

\* connection to broker b is gone (dropped by the network, or the broker went away)
ConnGone(st, b, canReconnect) ==
    LET s == st.s
        pend == PendingOn(s, b)
        \* unanswered requests are marked unsent; those that expected no reply were done when written
        s1 == [s EXCEPT !.inbox[b] = <<>>, !.conn[b] = FALSE,
                        !.reqs = [i \in DOMAIN @ |-> IF i \in SeqToSet(pend) THEN [@[i] EXCEPT !.sent = FALSE] ELSE @[i]],
                        !.loop[b] = s.cl[b] /\ (pend # <<>> \/ @)]
    IN St(s1, st.out, st.sig)

DoTimeout(st, e) ==
    LET s == st.s
        pending == SelectSeq([i \in DOMAIN s.reqs |-> i], LAMBDA r : s.reqs[r].live)
        oldest == IF pending = <<>> THEN 0 ELSE s.reqs[pending[1]].epoch
        due == SelectSeq(pending, LAMBDA r : s.reqs[r].epoch = oldest)
        \* Timers of the same instant all fire before any connection event can happen.  With disconnect-on-timeout a
        \* timed-out request asks for its connection to be dropped; the loss itself (and with it the decision whether
        \* anything is left to reconnect for) comes after the last of these timers.
        RECURSIVE Fire(_, _, _)
        Fire(stx, k, drops) ==
           IF k > Len(due) THEN [st |-> stx, drops |-> drops]
           ELSE LET r == due[k] IN
                IF ~stx.s.reqs[r].live THEN Fire(stx, k + 1, drops)
                ELSE LET b == stx.s.reqs[r].tgt
                         drop == DisconnectOnTimeout /\ b \in B /\ stx.s.conn[b]
                         st1 == Run(St(stx.s, stx.out, <<[k |-> "done", r |-> r, ok |-> FALSE, why |-> "timeout"]>>), e)
                     IN Fire(st1, k + 1, IF drop THEN drops \cup {b} ELSE drops)
        fired == Fire(St([s EXCEPT !.epoch = @ + 1], st.out, <<>>), 1, {})
        RECURSIVE Lose(_, _)
        Lose(stx, bs) ==
           IF bs = {} THEN stx
           ELSE LET b == CHOOSE x \in bs : \A y \in bs : x <= y IN
                IF stx.s.conn[b]
                THEN LET g == ConnGone(stx, b, TRUE) IN Lose(St(g.s, [g.out EXCEPT !.lost = @ \cup {b}], g.sig), bs \ {b})
                ELSE Lose(stx, bs \ {b})
    IN Settle(Lose(fired.st, fired.drops))

\* What a request looks like on the wire.  Requests written to one connection within the same reactor event by
\* different operations have no order the model could know (it depends on the order in which timers of the same
\* instant fire): an Answer event may therefore name the request the broker answered (e.k); <<>> means the oldest.
Desc(q) == <<q.kind, q.tps, q.topics>>
\* e.k = <<>>: the oldest request; <<kind, tps, topics>>: the oldest request of that description; with a fourth
\* element n: the n-th oldest of that description (requests that look the same on the wire, written by different
\* operations in the same event -- trace validation tries each)
KDesc(e) == SubSeq(e.k, 1, 3)
Matching(s, e) == SelectSeq([i \in DOMAIN s.inbox[e.t] |-> i], LAMBDA i : Desc(s.reqs[s.inbox[e.t][i]]) = KDesc(e))
Possible(s, e) ==
    CASE e.a \in {"CallMeta", "CallProduce", "CallCommit"} -> TRUE
      [] e.a = "Answer"   -> s.inbox[e.t] # <<>> /\ (e.k # <<>> => Len(Matching(s, e)) >= (IF Len(e.k) = 4 THEN e.k[4] ELSE 1))
      [] e.a = "Timeout"  -> \E r \in DOMAIN s.reqs : s.reqs[r].live
      [] e.a = "Drop"     -> s.conn[e.t] /\ s.cl[e.t]
      [] e.a = "Down"     -> s.up[e.t]
      [] e.a = "Up"       -> ~s.up[e.t]
      [] e.a = "Readdress" -> s.gen[e.t] = 1
      [] e.a = "Retire"   -> s.listed[e.t]
      [] e.a = "MoveLeader" -> s.leader[e.pl[1]] # e.t
      [] e.a = "MoveCoord" -> s.coord # e.t
      [] e.a = "Reap"     -> e.t \in SeqToSet(s.closingConns)
      [] e.a = "Close"    -> ~s.closing
      [] OTHER -> FALSE

RemoveFirst(seq, x) == LET i == FirstIndex(seq, x) IN SubSeq(seq, 1, i - 1) \o SubSeq(seq, i + 1, Len(seq))

Step(s, e) ==
    LET st0 == St(s, NoOut, <<>>)
        fin(st) == LET z == Settle(Run(st, e)) y == Run(z, e)
                       cd == y.s.closing /\ y.s.closeD = "pending" /\ y.s.closingConns = <<>>
                   IN [s |-> IF cd THEN [y.s EXCEPT !.closeD = "fired"] ELSE y.s,
                       out |-> [y.out EXCEPT !.closeFired = cd]]
    IN
    CASE e.a = "CallMeta" ->
           IF s.closing THEN [s |-> NewOp(s, [OpBase EXCEPT !.kind = "meta", !.st = "done"]),
                              out |-> [NoOut EXCEPT !.fired = {<<Len(s.ops) + 1, "failed", "closed">>}]]
           ELSE LET op == Len(s.ops) + 1
                    s1 == NewOp(s, [OpBase EXCEPT !.kind = "meta", !.topics = e.x])
                IN fin(StartUnaware(St(s1, NoOut, <<>>), op, "meta", e.x, e))
      [] e.a = "CallProduce" ->
           LET op == Len(s.ops) + 1
               s1 == NewOp(s, [OpBase EXCEPT !.kind = "produce", !.pl = e.pl, !.acks = e.x[1], !.foe = e.x[2]])
           IN IF s.closing THEN [s |-> [s1 EXCEPT !.ops[op].st = "done"],
                                 out |-> [NoOut EXCEPT !.fired = {<<op, "failed", "closed">>}]]
              ELSE fin(St(s1, NoOut, <<[k |-> "resolve", op |-> op]>>))
      [] e.a = "CallCommit" ->
           LET op == Len(s.ops) + 1
               s1 == NewOp(s, [OpBase EXCEPT !.kind = "commit"])
           IN IF s.closing THEN [s |-> [s1 EXCEPT !.ops[op].st = "done"],
                                 out |-> [NoOut EXCEPT !.fired = {<<op, "failed", "closed">>}]]
              ELSE fin(St(s1, NoOut, <<[k |-> "commit", op |-> op]>>))
      [] e.a = "Answer" ->
           \* the broker behind target t answers the oldest request it holds, from the cluster's state
           LET t == e.t
               pos == IF e.k = <<>> THEN 1 ELSE Matching(s, e)[IF Len(e.k) = 4 THEN e.k[4] ELSE 1]
               r == s.inbox[t][pos] q == s.reqs[r]
               b == IF t \in B THEN t ELSE BootBroker(t)
               s1 == [s EXCEPT !.inbox[t] = SubSeq(@, 1, pos - 1) \o SubSeq(@, pos + 1, Len(@))]
               s2 == CASE q.kind = "meta"    -> [s1 EXCEPT !.reqs[r].view = ViewOf(s, q.topics, e.x)]
                       [] q.kind = "coord"   -> [s1 EXCEPT !.reqs[r].codes = <<IF e.x # 0 THEN e.x ELSE IF s.up[s.coord] THEN 0 ELSE 15>>,
                                                           !.reqs[r].view = [coord |-> s.coord, gen |-> s.gen[s.coord]]]
                       [] q.kind = "produce" -> [s1 EXCEPT !.reqs[r].codes =
                                                    [i \in DOMAIN q.tps |-> IF e.x # 0 THEN e.x
                                                                            ELSE IF s.leader[q.tps[i]] = b THEN 0 ELSE NOT_LEADER]]
                       [] q.kind = "commit"  -> [s1 EXCEPT !.reqs[r].codes = <<IF e.x # 0 THEN e.x ELSE IF s.coord = b THEN 0 ELSE NOT_COORD>>]
           IN IF ~q.live THEN [s |-> s2, out |-> NoOut]          \* a late reply: discarded
              ELSE fin(St(s2, NoOut, <<[k |-> "done", r |-> r, ok |-> TRUE, why |-> "resp"]>>))
      [] e.a = "Timeout" -> LET y == DoTimeout(st0, e) IN fin(y)
      [] e.a = "Drop" -> fin(LET g == ConnGone(st0, e.t, TRUE) IN St([g.s EXCEPT !.loop[e.t] = @], g.out, g.sig))
      [] e.a = "Down" ->
           LET s1 == [s EXCEPT !.up[e.t] = FALSE]
               g == IF s.conn[e.t] THEN ConnGone(St(s1, NoOut, <<>>), e.t, FALSE) ELSE St(s1, NoOut, <<>>)
               cc == SelectSeq(g.s.closingConns, LAMBDA b : b # e.t)
               bt == {t \in Boot : BootBroker(t) = e.t}
               \* requests on an ephemeral bootstrap connection to that broker fail with the connection
               bf == SelectSeq([i \in DOMAIN s.reqs |-> i], LAMBDA r : s.reqs[r].live /\ s.reqs[r].tgt \in bt)
           IN fin(St([g.s EXCEPT !.closingConns = cc, !.inbox = [t \in DOMAIN @ |-> IF t \in bt THEN <<>> ELSE @[t]]], g.out,
                     g.sig \o [i \in DOMAIN bf |-> [k |-> "done", r |-> bf[i], ok |-> FALSE, why |-> "lost"]]))
      [] e.a = "Up" -> fin(St([s EXCEPT !.up[e.t] = TRUE], NoOut, <<>>))
      [] e.a = "Readdress" ->
           \* the broker restarts at its generation-2 address: its connections are gone
           LET s1 == [s EXCEPT !.gen[e.t] = 2]
               g == IF s.conn[e.t] THEN ConnGone(St(s1, NoOut, <<>>), e.t, FALSE) ELSE St(s1, NoOut, <<>>)
               cc == SelectSeq(g.s.closingConns, LAMBDA b : b # e.t)
               bt == {t \in Boot : BootBroker(t) = e.t}
               \* requests on an ephemeral bootstrap connection to that broker fail with the connection
               bf == SelectSeq([i \in DOMAIN s.reqs |-> i], LAMBDA r : s.reqs[r].live /\ s.reqs[r].tgt \in bt)
           IN fin(St([g.s EXCEPT !.closingConns = cc, !.inbox = [t \in DOMAIN @ |-> IF t \in bt THEN <<>> ELSE @[t]]], g.out,
                     g.sig \o [i \in DOMAIN bf |-> [k |-> "done", r |-> bf[i], ok |-> FALSE, why |-> "lost"]]))
      [] e.a = "Retire" -> [s |-> [s EXCEPT !.listed[e.t] = FALSE], out |-> NoOut]
      [] e.a = "MoveLeader" -> [s |-> [s EXCEPT !.leader[e.pl[1]] = e.t], out |-> NoOut]
      [] e.a = "MoveCoord" -> [s |-> [s EXCEPT !.coord = e.t], out |-> NoOut]
      [] e.a = "Reap" -> fin(St([s EXCEPT !.closingConns = RemoveFirst(@, e.t)], NoOut, <<>>))
      [] e.a = "Close" ->
           LET cls == {b \in B : s.cl[b]}
               pend == SelectSeq([i \in DOMAIN s.reqs |-> i], LAMBDA r : s.reqs[r].live)
               withConn == SelectSeq(<<1, 2, 3>>, LAMBDA b : s.cl[b] /\ s.conn[b])
               s1 == [s EXCEPT !.closing = TRUE, !.closeD = "pending",
                               !.cl = [b \in B |-> FALSE], !.loop = [b \in B |-> FALSE], !.conn = [b \in B |-> FALSE],
                               !.closingConns = @ \o withConn,
                               !.inbox = [t \in DOMAIN @ |-> <<>>],
                               !.cparts = [t \in Topics |-> "absent"], !.cleader = [tp \in TPs |-> -1],
                               !.cerr = [t \in Topics |-> -1], !.ccoord = 0]
           IN fin(St(s1, [NoOut EXCEPT !.lost = SeqToSet(withConn)],
                     [i \in DOMAIN pend |-> [k |-> "done", r |-> pend[i], ok |-> FALSE, why |-> "closed"]]))

-----------------------------------------------------------------------------
VARIABLES s, ev, out, h
vars == <<s, ev, out, h>>

Perms(S) == {q \in [1..Cardinality(S) -> S] : \A i, j \in 1..Cardinality(S) : i # j => q[i] # q[j]}
PLs == {<<tp>> : tp \in TPs} \cup ({<<x, y>> : x, y \in TPs} \ {<<x, x>> : x \in TPs})   \* 1 or 2 distinct partitions
    \cup {<<<<"a", 0>>, <<"b", 0>>, <<"a", 1>>>>}

\* event classes (kept apart: their argument x has a different type in each)
EvO(a, t, x, pl) == {[a |-> a, op |-> 0, t |-> t, x |-> x, pl |-> pl, ord |-> o, bord |-> bo, k |-> <<>>] : o \in Perms(B), bo \in Perms(Boot)}
Ev1(a, t, x, pl) == {[a |-> a, op |-> 0, t |-> t, x |-> x, pl |-> pl, ord |-> <<1, 2, 3>>, bord |-> <<11, 12>>, k |-> <<>>]}
EvMeta    == UNION {EvO("CallMeta", 0, T, <<>>) : T \in MetaSet}
EvProduce == UNION {EvO("CallProduce", 0, <<ak, foe>>, pl) : ak \in AckSet, foe \in FoeSet, pl \in PLSet}
EvInt     == EvO("CallCommit", 0, 0, <<>>)
             \cup UNION {EvO("Answer", t, x, <<>>) : t \in B \cup Boot, x \in ErrSet}
             \cup EvO("Timeout", 0, 0, <<>>)
             \cup UNION {Ev1(a, b, 0, <<>>) : a \in {"Drop", "Reap"}, b \in B}
             \cup UNION {Ev1(a, b, 0, <<>>) : a \in {"Down", "Up", "Readdress", "MoveCoord", "Retire"}, b \in FaultBrokers}
             \cup UNION {Ev1("MoveLeader", b, 0, <<tp>>) : b \in FaultBrokers, tp \in MoveTPs}
             \cup Ev1("Close", 0, 0, <<>>)

InitHist == [ opsDone |-> {}, fires |-> [i \in 1..MaxOps |-> 0], afterClose |-> FALSE, reaps |-> 0, prunes |-> 0 ]
UpdHist(hh, e, o) ==
    [ opsDone |-> hh.opsDone \cup {f[1] : f \in o.fired},
      fires |-> [i \in 1..MaxOps |-> hh.fires[i] + Cardinality({f \in o.fired : f[1] = i})],
      afterClose |-> hh.afterClose \/ e.a = "Close",
      reaps |-> hh.reaps + (IF e.a = "Reap" /\ hh.prunes >= 2 THEN 1 ELSE 0),   \* connections reaped after the second prune
      prunes |-> hh.prunes + (IF e.a = "Answer" /\ o.lost # {} THEN 1 ELSE 0) ]

Init == s = InitState /\ ev = Ev0 /\ out = NoOut /\ h = InitHist
Fire(e) ==
          /\ e.a \in EvKinds /\ Possible(s, e)
          /\ (e.a \in {"CallMeta", "CallProduce", "CallCommit"} => Len(s.ops) < MaxOps)
          /\ LET r == Step(s, e) IN
                \* the shuffled orders are part of the event only where the step consumed them
                /\ (~r.out.usedOrd => e.ord = <<1, 2, 3>>) /\ (~r.out.usedBord => e.bord = <<11, 12>>)
                /\ s' = r.s /\ ev' = e /\ out' = r.out /\ h' = UpdHist(h, e, r.out)
Next == (\E e \in EvMeta : Fire(e)) \/ (\E e \in EvProduce : Fire(e)) \/ (\E e \in EvInt : Fire(e))
Spec == Init /\ [][Next]_vars
Bound == Len(s.reqs) <= MaxReqs /\ TLCGet("level") <= MaxDepth

-----------------------------------------------------------------------------
(* Goals: states worth steering executions into.  TLC finds a shortest behaviour reaching each   *)
(* (the negated goal is checked as an invariant); the harness executes it on the real client   *)
(* and continues with random events from there.                                                 *)
\* close() while connections of two separately pruned broker clients are closing, one already gone
Goal_close_after_two_prunes == ev.a = "Close" /\ h.prunes >= 2 /\ h.reaps >= 1 /\ s.closingConns # <<>>
\* close() while a broker-agnostic request is on a bootstrap connection
Goal_close_during_bootstrap == ev.a = "Close" /\ \E r \in DOMAIN s.reqs : s.reqs[r].tgt \in Boot /\ s.reqs[r].epoch = s.epoch /\ out.fired # {}
\* close() with two requests queued on a broker client that cannot connect
Goal_close_with_queued ==
    ev.a = "Close" /\ \E b \in B : Cardinality({r \in DOMAIN s.reqs : s.reqs[r].tgt = b /\ ~s.reqs[r].sent /\ s.reqs[r].fin
                                                                        /\ s.reqs[r].epoch = s.epoch}) >= 2
\* the request timers of two requests in flight on one connection fire
Goal_timeout_two_in_flight == ev.a = "Timeout" /\ Cardinality(out.fired) >= 1 /\ out.lost # {}
\* a re-addressed broker's new address reaches a client that holds a broker client for it
Goal_readdressed_known == \E b \in B : s.cl[b] /\ s.gen[b] = 2 /\ s.cb[b] = 2

(* Property clauses over (s, ev, out, h) *)

\* C07 route: every produce request reaching a broker carries only partitions whose cached leader
\* was that broker when the operation resolved them (the cache may since have been invalidated by the
\* very event that wrote them only through a failure, which writes nothing)
C07_one_per_broker ==
    \A o \in DOMAIN s.ops : s.ops[o].kind = "produce" /\ s.ops[o].subs # <<>> =>
        /\ \A i, j \in DOMAIN s.ops[o].subs : i # j => s.reqs[s.ops[o].subs[i]].tgt # s.reqs[s.ops[o].subs[j]].tgt
        /\ \A tp \in SeqToSet(s.ops[o].pl) :
              Cardinality({r \in SeqToSet(s.ops[o].subs) : tp \in SeqToSet(s.reqs[r].tps)}) = 1
\* results come back in payload order, and on partial failure responses + failed payloads account
\* for every payload exactly once
C07_order_account ==
    \A f \in out.fired :
        LET o == s.ops[f[1]] IN
        o.kind = "produce" =>
            /\ (f[2] = "ok" /\ o.acks # 0 => [i \in DOMAIN f[3] |-> f[3][i][1]] = o.pl)
            /\ (f[2] = "failed_payloads" =>
                   LET okT == IF o.acks = 0 THEN <<>> ELSE [i \in DOMAIN f[3][1] |-> f[3][1][i][1]] IN
                   /\ SeqToSet(okT) \cap SeqToSet(f[3][2]) = {}
                   /\ (o.acks # 0 => SeqToSet(okT) \cup SeqToSet(f[3][2]) = SeqToSet(o.pl))
                   /\ okT = SelectSeq(o.pl, LAMBDA tp : tp \in SeqToSet(okT)))
\* every operation completes at most once
OpsOnce == \A i \in 1..MaxOps : h.fires[i] <= 1
\* C08: failed payloads drop the cached routing (the next request re-resolves)
\* (when the failure is set off by the broker list of a metadata answer -- a pruned client's requests fail -- the
\*  topic part of that same answer is written afterwards and is what the cache holds at the end of the event)
C08_invalidate ==
    \A f \in out.fired : f[2] = "failed_payloads" =>
        ((\A tp \in TPs : s.cleader[tp] = -1) \/ ev.a = "Answer") /\ s.ccoord = 0
\* C11: after the timers of an instant fired, no request armed before it is still pending
C11_bound == ev.a = "Timeout" => \A r \in DOMAIN s.reqs : s.reqs[r].live => s.reqs[r].epoch = s.epoch
\* C20: after close every operation has failed, nothing is issued or written, cache is empty
C20_close ==
    h.afterClose =>
        /\ \A o \in DOMAIN s.ops : s.ops[o].st = "done"
        /\ out.issued = <<>> /\ out.wire = {}
        /\ (\A tp \in TPs : s.cleader[tp] = -1) /\ (\A t \in Topics : s.cparts[t] = "absent") /\ s.ccoord = 0
C20_close_fires_last == s.closeD = "fired" => s.closingConns = <<>>
=============================================================================
