----------------------------- MODULE WireVectors -----------------------------
(***************************************************************************)
(* TLC as vector generator for C04 / C05 / C12: one initial state per      *)
(* abstract value; the specification's encoder (Wire) computes the bytes.  *)
(* Values are built from a SHAPE (how many topics / partitions / messages  *)
(* / members) and a variant number k: leaf number i takes the              *)
(* ((k + i) mod n)-th element of its domain, so that every domain value    *)
(* (boundary integers, null / empty / non-ASCII strings, null / empty      *)
(* bytes) occurs in every field position for some k.                       *)
(***************************************************************************)
EXTENDS Wire, MessageSet, FiniteSets, TLC

CONSTANTS Kinds,   \* which vector families to generate
          K        \* number of variants per shape

Pick(dom, i) == dom[(i % Len(dom)) + 1]

Max64 == <<32767, 65535, 65535, 65535>>
Min64 == <<32768, 0, 0, 0>>
MinI32 == -2147483647 - 1
I32s  == <<0, 1, -1, 2147483647, MinI32, 1000, 65536>>
I16s  == <<0, 1, -1, 32767, -32768, 6>>
Errs  == <<0, 1, 3, 6, 7, 14, 15, 16, 22, 25, 27, 72, -1, 99>>
I64s  == <<L64(0), L64(1), Minus1, Max64, Min64, <<0, 1, 0, 0>>, L64(65543)>>
PartIds == <<0, 1, 5, 2147483647, 7>>
AsciiNames == << <<116>>, <<116, 50>>, <<84, 46, 95, 45, 48>> >>           \* "t", "t2", "T._-0"
AsciiStrs  == << <<103>>, <<>>, <<103, 114, 112>> >>                       \* "g", "", "grp"
TextStrs   == << <<109>>, <<>>, <<195, 169>>, <<109, 45, 226, 130, 172>> >> \* "m", "", "é", "m-€"
Clients    == << <<<<>>>>, <<<<99>>>>, <<<<99, 195, 169>>>> >>             \* "", "c", "cé" (never null: the API cannot express it)
NBs        == << <<>>, <<<<>>>>, <<<<107>>>>, <<<<0, 255, 128>>>> >>       \* null, empty, 1 byte, 3 bytes
Corrs      == <<1, 0, 2147483647, 77>>

TopicShapes == { <<>>, <<0>>, <<1>>, <<2>>, <<1, 1>>, <<2, 1>>, <<0, 2>> }   \* partitions per topic
Counts == <<0, 1, 2>>

Msg(magic, i) ==
    IF magic = 1
    THEN [magic |-> 1, attrs |-> 0, ts |-> Pick(I64s, i), key |-> Pick(NBs, i + 1), value |-> Pick(NBs, i + 2)]
    ELSE [magic |-> 0, attrs |-> 0, key |-> Pick(NBs, i + 1), value |-> Pick(NBs, i + 2)]
\* n plain messages at offsets base, base+1, ...
Msgs(magic, n, base, i) == [j \in 1..n |-> [off |-> L64(base + j - 1), m |-> Msg(magic, i + 3 * j)]]
\* in a produce request the offset field of an entry is assigned by the broker and ignored on
\* input; afkak writes 0 and so do these vectors
Msgs0(magic, n, i) == [j \in 1..n |-> [off |-> L64(0), m |-> Msg(magic, i + 3 * j)]]

Topics(shape, k, part(_, _)) ==
    [ti \in DOMAIN shape |->
        [topic |-> Pick(AsciiNames, k + ti),
         parts |-> [pj \in 1..shape[ti] |-> part(k + 3 * ti + 5 * pj, Pick(PartIds, k + pj))]]]

ReqBodyOf(api, ver, shape, k) ==
    CASE api = 0 -> [acks |-> Pick(<<1, 0, -1>>, k), timeout |-> Pick(I32s, k + 1),
                     topics |-> Topics(shape, k, LAMBDA i, p :
                        [partition |-> p, msgs |-> Msgs0(IF ver >= 2 THEN Pick(<<1, 0>>, i) ELSE 0, Pick(Counts, i), i)])]
      [] api = 1 -> [max_wait |-> Pick(I32s, k), min_bytes |-> Pick(I32s, k + 2),
                     topics |-> Topics(shape, k, LAMBDA i, p :
                        [partition |-> p, offset |-> Pick(I64s, i), max_bytes |-> Pick(I32s, i + 1)])]
      [] api = 2 -> [topics |-> Topics(shape, k, LAMBDA i, p :
                        [partition |-> p, time |-> Pick(I64s, i), max_offsets |-> Pick(I32s, i + 1)])]
      [] api = 3 -> [topics |-> [ti \in DOMAIN shape |-> Pick(AsciiNames, k + ti)]]
      [] api = 8 -> [group |-> Pick(AsciiStrs, k), generation |-> Pick(I32s, k + 1), member |-> Pick(AsciiStrs, k + 1),
                     topics |-> Topics(shape, k, LAMBDA i, p :
                        [partition |-> p, offset |-> Pick(I64s, i), timestamp |-> Pick(I64s, i + 2),
                         metadata |-> Pick(NBs, i)])]
      [] api = 9 -> [group |-> Pick(AsciiStrs, k), topics |-> Topics(shape, k, LAMBDA i, p : p)]
      [] api = 10 -> [group |-> Pick(AsciiStrs, k)]
      [] api = 11 -> [group |-> Pick(TextStrs, k), session_timeout |-> Pick(I32s, k), member |-> Pick(TextStrs, k + 1),
                      protocol_type |-> Pick(TextStrs, k + 2),
                      protocols |-> [j \in DOMAIN shape |-> [name |-> Pick(AsciiStrs, k + j), metadata |-> Pick(NBs, k + j)]]]
      [] api = 14 -> [group |-> Pick(TextStrs, k), generation |-> Pick(I32s, k + 1), member |-> Pick(TextStrs, k + 1),
                      assignments |-> [j \in DOMAIN shape |-> [member |-> Pick(TextStrs, k + j), assignment |-> Pick(NBs, k + j)]]]
      [] api = 12 -> [group |-> Pick(TextStrs, k), generation |-> Pick(I32s, k + 1), member |-> Pick(TextStrs, k + 2)]
      [] api = 13 -> [group |-> Pick(TextStrs, k), member |-> Pick(TextStrs, k + 2)]
      [] api = 18 -> [none |-> 0]

ReqApis == { <<0, 0>>, <<0, 2>>, <<1, 0>>, <<1, 2>>, <<2, 0>>, <<3, 0>>, <<8, 1>>, <<9, 1>>, <<10, 0>>,
             <<11, 0>>, <<14, 0>>, <<12, 0>>, <<13, 0>>, <<18, 0>> }
Shaped(api) == api \in {0, 1, 2, 3, 8, 9, 11, 14}
ShapesFor(api) == IF Shaped(api) THEN TopicShapes ELSE {<<>>}

Requests ==
    {[kind |-> "req",
      x |-> [api |-> av[1], ver |-> av[2], corr |-> Pick(Corrs, k), client |-> Pick(Clients, k),
             body |-> ReqBodyOf(av[1], av[2], sh, k)]] : av \in ReqApis, sh \in TopicShapes, k \in 0..(K - 1)}

RespBodyOf(api, ver, shape, k) ==
    CASE api = 0 -> [throttle |-> Pick(I32s, k),
                     topics |-> Topics(shape, k, LAMBDA i, p :
                        [partition |-> p, error |-> Pick(Errs, i), offset |-> Pick(I64s, i + 1),
                         log_append_time |-> Pick(I64s, i + 3)])]
      [] api = 1 -> [throttle |-> Pick(I32s, k),
                     topics |-> Topics(shape, k, LAMBDA i, p :
                        [partition |-> p, error |-> Pick(Errs, i), hwm |-> Pick(I64s, i + 1),
                         msgs |-> Msgs(IF ver >= 2 THEN Pick(<<1, 0>>, i) ELSE 0, Pick(Counts, i), 40 + i, i)])]
      [] api = 2 -> [topics |-> Topics(shape, k, LAMBDA i, p :
                        [partition |-> p, error |-> Pick(Errs, i),
                         offsets |-> [j \in 1..Pick(Counts, i) |-> Pick(I64s, i + j)]])]
      [] api = 3 -> [brokers |-> [j \in 1..Pick(Counts, k) |-> [node |-> Pick(I32s, k + j), host |-> Pick(AsciiNames, k + j),
                                                                port |-> Pick(I32s, k + j + 2)]],
                     topics |-> [ti \in DOMAIN shape |->
                        [error |-> Pick(Errs, k + ti), topic |-> Pick(AsciiNames, k + ti),
                         parts |-> [pj \in 1..shape[ti] |->
                            [error |-> Pick(Errs, k + pj), partition |-> Pick(PartIds, k + pj), leader |-> Pick(I32s, k + pj),
                             replicas |-> [j \in 1..Pick(Counts, k + pj) |-> Pick(I32s, j)],
                             isr |-> [j \in 1..Pick(Counts, k + pj + 1) |-> Pick(I32s, j + 1)]]]]]]
      [] api = 8 -> [topics |-> Topics(shape, k, LAMBDA i, p : [partition |-> p, error |-> Pick(Errs, i)])]
      [] api = 9 -> [topics |-> Topics(shape, k, LAMBDA i, p :
                        [partition |-> p, offset |-> Pick(I64s, i), metadata |-> Pick(NBs, i), error |-> Pick(Errs, i + 1)])]
      [] api = 10 -> [error |-> Pick(Errs, k), node |-> Pick(I32s, k), host |-> Pick(AsciiNames, k), port |-> Pick(I32s, k + 3)]
      [] api = 11 -> [error |-> Pick(Errs, k), generation |-> Pick(I32s, k), protocol |-> Pick(TextStrs, k),
                      leader |-> Pick(TextStrs, k + 1), member |-> Pick(TextStrs, k + 2),
                      members |-> [j \in DOMAIN shape |-> [member |-> Pick(TextStrs, k + j), metadata |-> Pick(NBs, k + j)]]]
      [] api = 14 -> [error |-> Pick(Errs, k), assignment |-> Pick(NBs, k)]
      [] api = 12 -> [error |-> Pick(Errs, k)]
      [] api = 13 -> [error |-> Pick(Errs, k)]
      [] api = 18 -> [error |-> Pick(Errs, k),
                      versions |-> [j \in 1..Len(shape) |-> <<Pick(I16s, k + j), Pick(I16s, k + j + 1), Pick(I16s, k + j + 2)>>]]

RespApis == { <<0, 0>>, <<0, 2>>, <<1, 0>>, <<1, 2>>, <<2, 0>>, <<3, 0>>, <<8, 1>>, <<9, 1>>, <<10, 0>>,
              <<11, 0>>, <<14, 0>>, <<12, 0>>, <<13, 0>>, <<18, 0>> }
Responses ==
    {[kind |-> "resp",
      x |-> [api |-> av[1], ver |-> av[2], corr |-> Pick(Corrs, k), body |-> RespBodyOf(av[1], av[2], sh, k)]]
        : av \in RespApis, sh \in TopicShapes, k \in 0..(K - 1)}

\* Plain message sets for C05 / C12: both formats, 0..3 messages, every key/value/timestamp variant
MsgSets == {[kind |-> "msgset", x |-> Msgs(mg, n, base, k)] : mg \in {0, 1}, n \in 0..3, base \in {0, 1000}, k \in 0..(K - 1)}

\* Compressed sets: structure only (the harness compresses); Flatten gives the logical content.
\* Inner offsets: absolute for format 0; relative (0-based, with a compaction gap, or not 0-based) for format 1.
Inner(mg, offs, k) == [j \in DOMAIN offs |-> [off |-> offs[j], m |-> Msg(mg, k + j)]]
WSets == { <<10, <<8, 9, 10>> >>, <<10, <<0, 1, 2>> >>, <<10, <<0, 2, 5>> >>, <<10, <<5, 6, 7>> >>,
           <<8, <<8>> >>, <<9, <<0>> >> }
\* format 0 stores absolute inner offsets: only the sets that are consistent as such
WSetsFor(mg) == IF mg = 1 THEN WSets ELSE {w \in WSets : w[2][Len(w[2])] = w[1] /\ w[2][1] > 1}
WrapSets ==
    UNION {
    {[kind |-> "wrapset",
      x |-> <<[off |-> 1, m |-> Msg(mg, k)],
              [off |-> w[1], m |-> [magic |-> mg, codec |-> 1, ts |-> L64(k), inner |-> Inner(mg, w[2], k)]],
              [off |-> w[1] + 1, m |-> Msg(mg, k + 5)]>>]
        : k \in 0..(K - 1), w \in WSetsFor(mg)} : mg \in {0, 1}}
    \cup
    \* nesting depth 2: a wrapper whose inner set contains a wrapper
    {[kind |-> "wrapset",
      x |-> <<[off |-> 20, m |-> [magic |-> mg, codec |-> 1, ts |-> L64(0),
                                  inner |-> <<[off |-> IF mg = 0 THEN 18 ELSE 0, m |-> Msg(mg, k)],
                                              [off |-> IF mg = 0 THEN 20 ELSE 2,
                                               m |-> [magic |-> mg, codec |-> 1, ts |-> L64(1),
                                                      inner |-> Inner(mg, IF mg = 0 THEN <<19, 20>> ELSE <<0, 1>>, k + 2)]]>>]]>>]
        : mg \in {0, 1}, k \in 0..(K - 1)}

All == (IF "req" \in Kinds THEN Requests ELSE {}) \cup (IF "resp" \in Kinds THEN Responses ELSE {})
       \cup (IF "msgset" \in Kinds THEN MsgSets ELSE {}) \cup (IF "wrapset" \in Kinds THEN WrapSets ELSE {})

VARIABLE v
Init == v \in All
Next == UNCHANGED v

EntryLens(entries) == [i \in DOMAIN entries |-> SegLen(Entry(entries[i]))]
Emit ==
    CASE v.kind = "req"     -> PrintT(<<"VEC", "req", v.x, EncReq(v.x)>>)
      [] v.kind = "resp"    -> PrintT(<<"VEC", "resp", v.x, EncResp(v.x)>>)
      [] v.kind = "msgset"  -> PrintT(<<"VEC", "msgset", v.x, MsgSet(v.x), EntryLens(v.x),
                                          [k \in 1..(SegLen(MsgSet(v.x)) + 1) |-> CompleteWithin(EntryLens(v.x), k - 1)]>>)
      [] v.kind = "wrapset" -> PrintT(<<"VEC", "wrapset", v.x, Flatten(v.x)>>)

\* checked by TLC on the specification itself
HeaderMatchesBody == v.kind = "req" => MagicOK(v.x)
FlattenOrdered ==
    v.kind = "wrapset" => LET f == Flatten(v.x) IN \A i \in 1..(Len(f) - 1) : f[i].off < f[i + 1].off
=============================================================================
