---------------------------- MODULE Consumer_Live ----------------------------
(***************************************************************************)
(* Progress of the consumer (the liveness reading of C02 "every message    *)
(* present in the partition log" and of C14 "retrying continues"): once    *)
(* faults cease -- requests are answered, the processor completes, timers  *)
(* fire -- a started consumer that has not been stopped and has not failed *)
(* has every message of the log fetched and handed over, and stays there.  *)
(*                                                                         *)
(* The state machine is Consumer's Step.  Histories are dropped and the    *)
(* counters that only grow (retry indexes, attempt counts) are capped at   *)
(* the value from which they no longer change behaviour, so that the state *)
(* space is finite without a depth bound.                                  *)
(***************************************************************************)
EXTENDS Consumer

Cap(x, n) == IF x > n THEN n ELSE x
AttemptCap == IF MaxAttempts = 0 THEN 3 ELSE MaxAttempts + 1
Norm(st) == [st EXCEPT !.ridx = Cap(@, Len(Delays) + 1), !.acount = Cap(@, AttemptCap),
                       !.creq = [@ EXCEPT !.attempt = Cap(@, AttemptCap), !.didx = Cap(@, Len(Delays) + 1)]]

E(a, x, w, k) == [a |-> a, x |-> x, w |-> w, k |-> k]
NextEntries(fo) == LET af == After(fo) IN SubSeq(af, 1, IF Len(af) < 2 THEN Len(af) ELSE 2)
GoodKinds == {"OffsetsDone", "OFetchDone", "FetchDone", "ProcDone", "RetryFire", "CommitDone", "CommitRetry", "Tick"}
GoodEvents(st, a) ==
    CASE a = "OffsetsDone" -> {E(a, IF st.fo = LATEST THEN LogEnd ELSE LogStart, <<>>, "")}
      [] a = "OFetchDone"  -> {E(a, -1, <<>>, "")}
      [] a = "FetchDone"   -> IF st.fo >= 0 THEN {E(a, 0, NextEntries(st.fo), "")} ELSE {}
      [] a = "ProcDone"    -> {E(a, 1, <<>>, "")}
      [] a = "CommitDone"  -> {E(a, 0, <<>>, "ok")}
      [] OTHER             -> {E(a, 0, <<>>, "")}
BadEvents(st) ==
         {E(a, 0, <<>>, "") : a \in {"Stop", "Shutdown", "OffsetsErr", "OFetchErr"}}
    \cup {E("ProcDone", x, <<>>, "") : x \in {0, 2}}
    \cup {E("FetchErr", 0, <<>>, k) : k \in {"range", "kafka"}}
    \cup {E("CommitDone", 0, <<>>, k) : k \in {"retriable", "fenced"}}
    \cup (IF st.fo >= 0 THEN {E("FetchDone", 0, w, "") : w \in {<<>>, <<-1>>, <<BAD>>}} ELSE {})
Starts == {E("Start", p, <<>>, "") : p \in {EARLIEST, LATEST, LogStart} \cup (IF Group THEN {COMMITTED} ELSE {})}

LFire(e) == Possible(s, e) /\ s' = Norm(Step(s, e).s) /\ ev' = e /\ out' = <<>> /\ h' = InitHist
Good(a) == \E e \in GoodEvents(s, a) : LFire(e)
GoodNext == \E a \in GoodKinds : Good(a)
LNext == GoodNext \/ (\E e \in Starts : LFire(e)) \/ (\E e \in BadEvents(s) : LFire(e))
LSpec == Init /\ [][LNext]_vars /\ \A a \in GoodKinds : WF_vars(Good(a))

\* (the list of waiters of a commit that is never answered can grow without bound: restarts re-process and queue again)
LBound == Len(s.cds) <= 3
CaughtUp == s.fo = LogEnd /\ ~s.block /\ s.todo = <<>> /\ ~s.procPending
Over == s.startD # "pending" \/ s.shutting
C02_progress == (<>[][GoodNext]_vars) => <>[](CaughtUp \/ Over)
=============================================================================
