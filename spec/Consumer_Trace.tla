--------------------------- MODULE Consumer_Trace ---------------------------
(* Validates executions of the real Consumer (over a scripted client) against Consumer.  The abstract *)
(* state follows the design module's Step; what each event made the consumer do is compared with the   *)
(* prediction field by field, and the property clauses are evaluated on the OBSERVED history.          *)
EXTENDS Consumer, Json, IOUtils, TLCExt

Traces == JsonDeserialize(IOEnv.TRACE_FILE)
VARIABLES tid, l, viol, drift,
          lost      \* the implementation did something the model cannot follow: from there on only the clauses stated over
                    \* observable actions alone are evaluated, on the observed history
tvars == <<s, ev, out, h, tid, l, viol, drift, lost>>

Kind(o, k) == SelectSeq(o, LAMBDA a : a[1] = k)
Calls(o) == SelectSeq(o, LAMBDA a : a[1] \in {"offsets", "ofetch", "fetch", "commit"})
Fires(o) == {<<a[2], a[3]>> : a \in Range(Kind(o, "fire"))}
FireVals(o) == {<<a[2], a[4]>> : a \in {b \in Range(Kind(o, "fire")) : b[3] = "ok" /\ b[2] \in {"start", "shutdown"}}}
Timers(o) == [i \in DOMAIN Kind(o, "timer") |-> Kind(o, "timer")[i][2]]
Near(a, b) == (a - b) \in -2..2
TimersMatch(p, o) == Len(p) = Len(o) /\ \A i \in DOMAIN p : Near(p[i], o[i])
Stopping(e) == e.a \in {"Stop", "Shutdown"}

Tagged(p, o, e, post, rec) ==
       (IF Kind(p, "proc") # Kind(o, "proc")
           THEN {IF post.startD = "none" \/ Stopping(e) THEN "C13.quiet_after_stop" ELSE "C02.delivery"} ELSE {})
  \cup (IF SelectSeq(Calls(p), LAMBDA a : a[1] = "fetch") # SelectSeq(Calls(o), LAMBDA a : a[1] = "fetch")
           THEN {IF post.startD = "none" \/ Stopping(e) THEN "C13.quiet_after_stop"
                 ELSE IF e.a = "FetchDone" /\ e.w = <<-1>> THEN "C14.growth"
                 ELSE "C02.fetch_position"} ELSE {})
  \cup (IF SelectSeq(Calls(p), LAMBDA a : a[1] \in {"offsets", "ofetch"}) # SelectSeq(Calls(o), LAMBDA a : a[1] \in {"offsets", "ofetch"})
           THEN {IF post.startD = "none" \/ Stopping(e) THEN "C13.quiet_after_stop" ELSE "C14.reset_policy"} ELSE {})
  \cup (IF Kind(p, "commit") # Kind(o, "commit")
           THEN {IF e.a = "Shutdown" \/ post.shutD THEN "C13.shutdown_commits" ELSE "C03.commit_issue"} ELSE {})
  \cup (IF Fires(p) # Fires(o) \/ Len(Kind(p, "fire")) # Len(Kind(o, "fire"))
           THEN {IF \E f \in (Fires(p) \cup Fires(o)) : f[1] = "start" THEN "C13.start_result"
                 ELSE IF \E f \in (Fires(p) \cup Fires(o)) : f[1] = "shutdown" THEN "C13.shutdown_terminates"
                 ELSE "C03.commit_result"} ELSE {})
  \cup (IF FireVals(p) # FireVals(o) THEN {"C13.start_value"} ELSE {})
  \cup (IF ~TimersMatch(Timers(p), Timers(o)) THEN {IF post.startD = "none" THEN "C13.quiet_after_stop" ELSE "C14.backoff"} ELSE {})
  \cup (IF rec.o.lp # post.lp THEN {"C03.last_processed"} ELSE {})
  \cup (IF rec.o.lc # post.lc THEN {"C03.recorded"} ELSE {})
  \cup (IF rec.o.pending # (IF post.retry THEN 1 ELSE 0) + (IF post.ccall THEN 1 ELSE 0) + (IF post.looper THEN 1 ELSE 0)
           THEN {IF post.startD = "none" THEN "C13.timers_after_stop" ELSE "C14.timers"} ELSE {})
  \cup (IF rec.o.overlap THEN {"C02.no_overlap"} ELSE {})
  \cup (IF rec.o.bad THEN {"C02.content"} ELSE {})      \* (full-stack runs: key, value, offset differ from the stored message)

Clauses ==
    << <<"C02.order", C02_order>>, <<"C02.no_gap", C02_no_gap>>, <<"C03.behind", C03_behind>>,
       <<"C13.start_once", C13_start_once>> >>
ObsClauses ==
    << <<"C02.order", C02_order>>, <<"C02.no_gap", C02_no_gap>>, <<"C03.behind", C03_behind_obs>> >>

TInit ==
    /\ tid \in DOMAIN Traces /\ l = 1 /\ viol = {} /\ drift = {} /\ lost = FALSE
    /\ s = InitState /\ ev = Ev("Init", 0) /\ out = <<>> /\ h = InitHist

TNext ==
    /\ l <= Len(Traces[tid].steps)
    /\ LET tr == Traces[tid]
           rec == tr.steps[l]
           e == rec.e
       IN IF e.a = "Unexecutable"
          THEN /\ viol' = viol \cup (IF lost THEN {} ELSE {<<"ENV.impossible", l>>})
               /\ l' = Len(tr.steps) + 1
               /\ (IOEnv.TRACE_DEBUG = "1" => PrintT(<<"MISMATCH", tid, l, <<"impossible">>, s, h.procFailed>>))
               /\ UNCHANGED <<s, ev, out, h, tid, drift, lost>>
          ELSE IF lost \/ ~Possible(s, e)
          THEN \* observe-only: the model state is frozen, the history follows the recorded actions
               LET o == rec.o.acts IN
               /\ lost' = TRUE /\ s' = s /\ ev' = e /\ out' = o
               /\ h' = UpdHist(h, s, e, [s |-> s, out |-> o])
               /\ viol' = viol \cup (IF lost THEN {} ELSE {<<"ENV.impossible", l>>})
                               \cup {<<ObsClauses'[i][1], l>> : i \in {j \in DOMAIN ObsClauses : ~ObsClauses'[j][2]}}
               /\ (~lost /\ IOEnv.TRACE_DEBUG = "1" => PrintT(<<"MISMATCH", tid, l, <<"impossible">>, s, h.procFailed>>))
               /\ drift' = drift /\ l' = l + 1 /\ tid' = tid
          ELSE LET r == Step(s, e)
                   o == rec.o.acts
               IN /\ s' = r.s /\ ev' = e /\ out' = o
                  /\ h' = UpdHist(h, s, e, [s |-> r.s, out |-> o])
                  /\ viol' = viol
                        \cup {<<c, l>> : c \in Tagged(r.out, o, e, r.s, rec)}
                        \cup {<<Clauses'[i][1], l>> : i \in {j \in DOMAIN Clauses : ~Clauses'[j][2]}}
                        \cup (IF rec.o.exc # "" THEN {<<"ENV.exception", l>>} ELSE {})
                  /\ drift' = drift
                  /\ (viol' # viol /\ IOEnv.TRACE_DEBUG = "1" => PrintT(<<"MISMATCH", tid, l, r.out, s, h'.procFailed>>))
                  /\ l' = l + 1 /\ tid' = tid /\ lost' = lost

TSpec == TInit /\ [][TNext]_tvars
Report == l > Len(Traces[tid].steps) => PrintT(<<"RESULT", tid, l - 1, viol, drift>>)
=============================================================================
