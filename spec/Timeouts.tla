------------------------------ MODULE Timeouts ------------------------------
(***************************************************************************)
(* The bound a request gets and the life of its timer (C11): one state per *)
(* scenario -- client timeout, an optional minimum supplied by the caller  *)
(* (group joins ask for 35 s), and what happens to the request: answered   *)
(* in time, never answered, or cancelled by its caller before the deadline.*)
(* The module computes what must be observed: the delay the timer is armed *)
(* with, whether the request is completed at the deadline, and that no     *)
(* timer of the request is left once it is over (so nothing fires for it   *)
(* later and nothing else is disturbed).                                   *)
(***************************************************************************)
EXTENDS Naturals, Integers, Sequences, TLC

ClientTimeouts == {5, 10, 60}            \* seconds
Minimums == {0, 35}                      \* 0: none supplied
Fates == {"answered", "silent", "cancelled"}
Scenarios == {[client |-> c, min |-> m, fate |-> f, dot |-> d] : c \in ClientTimeouts, m \in Minimums, f \in Fates, d \in {TRUE, FALSE}}

Max(a, b) == IF a > b THEN a ELSE b
Expected(sc) ==
    [ bound |-> IF sc.min = 0 THEN sc.client ELSE Max(sc.client, sc.min),     \* the minimum is a floor, never a cap
      outcome |-> CASE sc.fate = "answered" -> "ok" [] sc.fate = "silent" -> "timed_out" [] OTHER -> "cancelled",
      timersLeft |-> 0,                                                        \* once the request is over
      \* a request that was answered or cancelled in time leaves the other requests on its connection alone
      \* (when it really times out, disconnect-on-timeout may drop the connection: ClientRouting's business)
      bystanderUndisturbed |-> sc.fate # "silent" ]

VARIABLE sc
Init == sc \in Scenarios
Next == UNCHANGED sc
BoundIsFloor == LET e == Expected(sc) IN e.bound >= sc.client /\ (sc.min # 0 => e.bound >= sc.min) /\ (e.bound = sc.client \/ e.bound = sc.min)
Emit == PrintT(<<"VEC", sc, Expected(sc)>>)
=============================================================================
