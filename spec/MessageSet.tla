----------------------------- MODULE MessageSet -----------------------------
(***************************************************************************)
(* Logical content of a Kafka message set (formats 0 and 1): which         *)
(* messages, at which absolute offsets, a consumer must see (C05, C02),    *)
(* and what survives truncation (C12).                                     *)
(*                                                                         *)
(* An entry is [off, m].  m is either a plain message                      *)
(*   [magic, attrs |-> 0, ts, key, value]                                  *)
(* or a compressed wrapper [magic, codec, ts, inner] whose value on the    *)
(* wire is Z(MsgSet(inner)) for an uninterpreted compressor Z (deflate is  *)
(* outside the specification; the harness supplies gzip).                  *)
(*                                                                         *)
(* Offsets inside a wrapper: format 0 stores absolute offsets; format 1    *)
(* stores relative offsets and the wrapper's own offset is the absolute    *)
(* offset of the LAST inner message:                                       *)
(*     absolute(i) = wrapper.off - inner[last].off + inner[i].off          *)
(* Offsets here are small naturals (the 64-bit boundary values are         *)
(* exercised on plain fields in Wire).                                     *)
(***************************************************************************)
EXTENDS Naturals, Integers, Sequences

IsWrapper(m) == "inner" \in DOMAIN m

RECURSIVE Flatten(_)
Flatten(entries) ==
    IF entries = <<>> THEN <<>>
    ELSE LET e == Head(entries) IN
         (IF ~IsWrapper(e.m) THEN <<e>>
          ELSE LET inner == Flatten(e.m.inner) IN
               IF e.m.magic = 0 \/ inner = <<>> THEN inner
               ELSE LET last == inner[Len(inner)].off IN
                    [i \in DOMAIN inner |-> [off |-> e.off - last + inner[i].off, m |-> inner[i].m]])
         \o Flatten(Tail(entries))

\* Truncation: given the byte length of each entry (12-byte entry header included), the number of
\* complete entries in the first k bytes.
RECURSIVE Ends(_, _)
Ends(lens, acc) == IF lens = <<>> THEN <<>> ELSE <<acc + Head(lens)>> \o Ends(Tail(lens), acc + Head(lens))
CompleteWithin(lens, k) == LET e == Ends(lens, 0) IN Len(SelectSeq(e, LAMBDA x : x <= k))
=============================================================================
