------------------------------- MODULE Group -------------------------------
(***************************************************************************)
(* One member of a consumer group: afkak's Coordinator / ConsumerGroup.    *)
(* Properties C16 (generation fencing) and C17 (never idle).               *)
(*                                                                         *)
(* Environment: the application (start / stop), the KafkaClient (each of   *)
(* its calls is answered by an event: coordinator lookup, topic metadata,  *)
(* join, partition lookup by the leader, sync, heartbeat, leave), the      *)
(* reactor's timers (the heartbeat looper, delayed rejoins) and the        *)
(* partition consumers the member runs (their graceful shutdown completes  *)
(* or fails when the environment says so; their start Deferred may fail).  *)
(* One action = one such event with all its synchronous consequences; the  *)
(* observable actions of an event are, in order,                           *)
(*   <<"coord">> <<"meta">> <<"join", member>> <<"parts">>                 *)
(*   <<"sync", gen, member, nAssignments, <<partitions assigned>>>>        *)
(*   <<"hb", gen, member>>                                                 *)
(*   <<"leave", member>> <<"reset">> (coordinator cache invalidated)       *)
(*   <<"timer", delay>> (a delayed rejoin)                                 *)
(*   <<"cstart", p, gen, member, fromCommitted>> <<"cshut", p>> <<"cstop", p>> *)
(*   <<"fire", "start"|"stop", "ok"|"fail">>                               *)
(***************************************************************************)
EXTENDS Naturals, Integers, Sequences, FiniteSets, TLC

CONSTANTS InitialBackoff, RetryBackoff, FatalBackoff,    \* microseconds
          SyncRaise,           \* partitions whose consumer's shutdown() raises synchronously instead of returning a Deferred
                               \* (environment; {} in the default configuration): such a consumer is stopped on the spot
          KF_SwallowFatal,     \* known finding (known_findings.json, C17): TRUE = what afkak does: a failure that is not a
                               \* Kafka error, raised by the coordinator lookup, the topic metadata load or the leader's
                               \* partition lookup, is logged and swallowed -- nothing is scheduled, start() never fires
          MaxDepth

Range(f) == {f[i] : i \in DOMAIN f}
Without(q, x) == SelectSeq(q, LAMBDA y : y # x)

InitState ==
    [ startD |-> "none",        \* none | pending | fired     (the Deferred returned by start)
      stop |-> "no",            \* no | shutting (waiting for the consumers) | leaving (waiting for the leave reply) | done
      stopFail |-> FALSE,       \* the stop in progress reports a failure on the start Deferred
      stopApp |-> FALSE,        \* the stop in progress was requested by the application (its own Deferred is observed)
      rejoinNeeded |-> TRUE,
      rref |-> FALSE,           \* _rejoin_wait_dc refers to a pending delayed rejoin
      rtimers |-> 0,            \* delayed rejoins pending on the clock (referenced or not)
      rj |-> "none",            \* where the join in progress waits: none | coord | meta | prepare | join | parts | sync
      member |-> 0, gen |-> -1, coordKnown |-> FALSE,
      hbRun |-> FALSE, hbReq |-> FALSE,
      cons |-> <<>>,            \* partitions with a running consumer, in creation order
      cfail |-> {},             \* ... those whose start Deferred has failed already
      closing |-> <<>>,         \* consumers being shut down gracefully (by the join in progress or by stop)
      leaveReq |-> FALSE ]

St(s, out) == [s |-> s, out |-> out]
Act(st, a) == [s |-> st.s, out |-> Append(st.out, a)]
RECURSIVE Acts(_, _, _)
Acts(st, tag, q) == IF q = <<>> THEN st ELSE Acts(Act(st, <<tag, Head(q)>>), tag, Tail(q))

\* shutdown_consumers(): shutdown() on each consumer, in order; one whose shutdown() raises is stopped at once and is not waited for
RECURSIVE Shuts(_, _)
Shuts(st, q) == IF q = <<>> THEN st
                ELSE LET a == Act(st, <<"cshut", Head(q)>>) IN
                     Shuts(IF Head(q) \in SyncRaise THEN Act(a, <<"cstop", Head(q)>>) ELSE a, Tail(q))
Waited(q) == SelectSeq(q, LAMBDA p : p \notin SyncRaise)

\* stop_consumers(): forcibly, at once
StopConsumers(st) == LET x == Acts(st, "cstop", st.s.cons) IN St([x.s EXCEPT !.cons = <<>>, !.cfail = {}], x.out)

\* ---------------------------------------------------------------- stopping
Finish(st) ==
    \* end of Coordinator.stop(): the join in progress is cancelled (consumers it was still shutting down are stopped),
    \* identity forgotten, the start Deferred fires
    LET s == st.s
        x0 == IF s.rj = "prepare" THEN Acts(st, "cstop", s.closing) ELSE st
        x1 == IF s.startD = "pending" THEN Act(x0, <<"fire", "start", IF s.stopFail THEN "fail" ELSE "ok">>) ELSE x0
        x2 == IF s.stopApp THEN Act(x1, <<"fire", "stop", "ok">>) ELSE x1
    IN St([x2.s EXCEPT !.rj = "none", !.closing = <<>>, !.member = 0, !.gen = -1, !.coordKnown = FALSE, !.startD = "none",
                       !.stop = "done", !.leaveReq = FALSE], x2.out)

CoordStop(st) ==
    \* Coordinator.stop(): timers and the heartbeat go, the leave request is sent when there is someone to send it to
    LET s == st.s
        s1 == [s EXCEPT !.rejoinNeeded = FALSE, !.rtimers = IF s.rref THEN @ - 1 ELSE @, !.rref = FALSE,
                        !.hbReq = FALSE, !.hbRun = FALSE]
    IN IF s.coordKnown /\ s.member # 0
       THEN Act(St([s1 EXCEPT !.stop = "leaving", !.leaveReq = TRUE], st.out), <<"leave", s.member>>)
       ELSE Finish(St([s1 EXCEPT !.stop = "leaving"], st.out))

\* ConsumerGroup.stop(): first the consumers are shut down gracefully
BeginStop(st, fail, app) ==
    LET s == [st.s EXCEPT !.stopFail = fail, !.stopApp = app, !.rejoinNeeded = FALSE] IN
    IF s.cons # <<>>
    THEN LET x == Shuts(St(s, st.out), s.cons)
             y == St([x.s EXCEPT !.stop = "shutting", !.closing = Waited(s.cons), !.cons = <<>>, !.cfail = {}], x.out)
         IN IF y.s.closing = <<>> THEN CoordStop(y) ELSE y
    ELSE CoordStop(St([s EXCEPT !.stop = "shutting"], st.out))

\* ---------------------------------------------------------------- errors
Delay(k) == IF k \in {"inconsistent", "timeout", "kafka"} THEN FatalBackoff ELSE RetryBackoff

RejoinAfterError(st, k) ==
    LET s == st.s IN
    IF s.stop # "no" THEN st                     \* a member that is stopping does not rejoin
    ELSE LET x1 == CASE k \in {"notcoord", "notavail"} -> Act(st, <<"reset">>)
                     [] k = "illegal" -> StopConsumers(st)
                     [] k = "unknown" -> LET y == StopConsumers(st) IN St([y.s EXCEPT !.member = 0], y.out)
                     [] k = "timeout" -> Act(StopConsumers(st), <<"reset">>)
                     [] k = "other" -> StopConsumers(st)
                     [] OTHER -> st
         IN IF k = "other" THEN BeginStop(x1, TRUE, FALSE)       \* not a Kafka error: surfaces on the start Deferred
            ELSE LET s2 == [x1.s EXCEPT !.rejoinNeeded = TRUE] IN
                 IF s2.rref THEN St(s2, x1.out)
                 ELSE Act(St([s2 EXCEPT !.rref = TRUE, !.rtimers = @ + 1], x1.out), <<"timer", Delay(k)>>)

\* ---------------------------------------------------------------- joining
JoinAndSync(st) ==
    LET s1 == [st.s EXCEPT !.rref = FALSE] IN
    IF ~s1.rejoinNeeded \/ s1.rj # "none" THEN St(s1, st.out)
    ELSE Act(St([s1 EXCEPT !.rj = "coord"], st.out), <<"coord">>)

SendJoin(st) == Act(St([st.s EXCEPT !.rj = "join"], st.out), <<"join", st.s.member>>)
EndJoin(st) == St([st.s EXCEPT !.rj = "none"], st.out)

\* the graceful shutdown of the previous generation's consumers is over (completed, or failed and the rest stopped)
AfterClosing(st) ==
    LET s == st.s IN
    IF s.stop = "shutting" THEN CoordStop(st)
    ELSE IF s.rj = "prepare" THEN (IF s.stop # "no" THEN EndJoin(st) ELSE SendJoin(st))
    ELSE st

\* ---------------------------------------------------------------- events
Possible(s, e) ==
    CASE e.a = "Start"      -> s.startD = "none" /\ s.stop = "no"
      [] e.a = "Stop"       -> s.startD # "none" /\ s.stop = "no"
      [] e.a \in {"CoordDone", "CoordErr"} -> s.rj = "coord"
      [] e.a \in {"MetaDone", "MetaErr"}   -> s.rj = "meta"
      [] e.a \in {"JoinDone", "JoinErr"}   -> s.rj = "join"
      [] e.a \in {"PartsDone", "PartsErr"} -> s.rj = "parts"
      [] e.a \in {"SyncDone", "SyncErr"}   -> s.rj = "sync"
      [] e.a \in {"HbDone", "HbErr"}       -> s.hbReq
      [] e.a \in {"LeaveDone", "LeaveErr"} -> s.leaveReq
      [] e.a = "HbTick"     -> s.hbRun
      [] e.a = "RejoinFire" -> s.rtimers > 0
      [] e.a = "CShut"      -> e.x \in Range(s.closing)
      [] e.a = "CErr"       -> e.x \in Range(s.cons) /\ e.x \notin s.cfail
      [] OTHER -> FALSE

Step(s, e) ==
    LET st0 == St(s, <<>>) IN
    CASE e.a = "Start" -> JoinAndSync(St([s EXCEPT !.startD = "pending"], <<>>))
      [] e.a = "Stop" -> BeginStop(st0, FALSE, TRUE)
      [] e.a = "CoordDone" ->
           \* (the lookup's own handlers do not look at the stopping flag: a retry timer or the topic metadata load
           \*  follow even then; the join itself ends at the next step)
           IF e.x = 0
           THEN \* no coordinator yet: try again after the initial backoff (this timer is not the referenced one)
                EndJoin(Act(St([s EXCEPT !.rtimers = @ + 1], <<>>), <<"timer", InitialBackoff>>))
           ELSE Act(St([s EXCEPT !.rj = "meta"], <<>>), <<"meta">>)
      [] e.a = "CoordErr" ->
           IF e.k = "other" THEN (IF KF_SwallowFatal THEN EndJoin(st0) ELSE RejoinAfterError(EndJoin(st0), "other"))
           ELSE EndJoin(Act(St([s EXCEPT !.rtimers = @ + 1], <<>>),
                            <<"timer", IF e.k \in {"notavail", "notcoord"} THEN InitialBackoff ELSE FatalBackoff>>))
      [] e.a = "MetaDone" ->
           IF s.stop # "no" THEN EndJoin(st0)
           ELSE LET s1 == [s EXCEPT !.coordKnown = TRUE] IN
                IF s.cons = <<>> THEN SendJoin(St(s1, <<>>))
                ELSE LET x == Shuts(St(s1, <<>>), s.cons)
                         y == St([x.s EXCEPT !.rj = "prepare", !.closing = Waited(s.cons), !.cons = <<>>, !.cfail = {}], x.out)
                     IN IF y.s.closing = <<>> THEN SendJoin(y) ELSE y
      [] e.a \in {"MetaErr", "PartsErr"} ->
           IF e.k = "other" /\ KF_SwallowFatal THEN EndJoin(st0) ELSE RejoinAfterError(EndJoin(st0), e.k)
      [] e.a = "CShut" ->
           IF e.k = "ok"
           THEN LET s1 == [s EXCEPT !.closing = Without(@, e.x)] IN
                IF s1.closing = <<>> THEN AfterClosing(St(s1, <<>>)) ELSE St(s1, <<>>)
           ELSE \* one graceful shutdown failed: the others are stopped at once
                LET x == Acts(st0, "cstop", Without(s.closing, e.x)) IN AfterClosing(St([x.s EXCEPT !.closing = <<>>], x.out))
      [] e.a = "JoinDone" ->
           LET s1 == [s EXCEPT !.member = e.w[1], !.gen = e.x] IN
           IF s.stop # "no" THEN EndJoin(St(s1, <<>>))
           ELSE IF e.k = "leader" THEN Act(St([s1 EXCEPT !.rj = "parts"], <<>>), <<"parts">>)
           ELSE Act(St([s1 EXCEPT !.rj = "sync"], <<>>), <<"sync", e.x, e.w[1], 0, <<>>>>)
      [] e.a \in {"JoinErr", "SyncErr"} -> RejoinAfterError(EndJoin(st0), e.k)
      [] e.a = "PartsDone" ->
           IF s.stop # "no" THEN EndJoin(st0)
           \* the leader assigns every partition the lookup just reported (e.x of them), to the two members
           ELSE Act(St([s EXCEPT !.rj = "sync"], <<>>), <<"sync", s.gen, s.member, 2, [i \in 1..e.x |-> i - 1]>>)
      [] e.a = "SyncDone" ->
           IF s.stop # "no" THEN EndJoin(st0)
           ELSE LET RECURSIVE Starts(_, _)
                    Starts(x, q) == IF q = <<>> THEN x ELSE Starts(Act(x, <<"cstart", Head(q), s.gen, s.member, 1>>), Tail(q))
                    x1 == Starts(St([s EXCEPT !.hbRun = TRUE, !.rejoinNeeded = FALSE, !.rj = "none"], <<>>), e.w)
                IN St([x1.s EXCEPT !.cons = @ \o e.w], x1.out)
      [] e.a = "HbTick" ->
           IF s.stop # "no" \/ s.rejoinNeeded \/ s.hbReq THEN st0
           ELSE Act(St([s EXCEPT !.hbReq = TRUE], <<>>), <<"hb", s.gen, s.member>>)
      [] e.a = "HbDone" -> St([s EXCEPT !.hbReq = FALSE], <<>>)
      [] e.a = "HbErr" -> RejoinAfterError(St([s EXCEPT !.hbReq = FALSE, !.hbRun = FALSE], <<>>), e.k)
      [] e.a = "RejoinFire" -> JoinAndSync(St([s EXCEPT !.rtimers = @ - 1], <<>>))
      [] e.a = "CErr" -> RejoinAfterError(St([s EXCEPT !.cfail = @ \cup {e.x}], <<>>), e.k)
      [] e.a \in {"LeaveDone", "LeaveErr"} -> Finish(St([s EXCEPT !.leaveReq = FALSE], <<>>))

-----------------------------------------------------------------------------
VARIABLES s, ev, out, h
vars == <<s, ev, out, h>>

Ev(a, x, k, w) == [a |-> a, x |-> x, k |-> k, w |-> w]
InitHist == [ stoppedBefore |-> FALSE, joins |-> 0, firedDuring |-> FALSE, leads |-> 0 ]
UpdHist(hh, pre, e, r) ==
    [ stoppedBefore |-> pre.stop # "no",        \* this event found the member stopping or stopped
      joins |-> hh.joins + Cardinality({i \in DOMAIN r.out : r.out[i][1] = "join"}),
      leads |-> hh.leads + (IF e.a = "JoinDone" /\ e.k = "leader" THEN 1 ELSE 0),
      \* a delayed rejoin fired while the join now in progress was already running
      firedDuring |-> IF pre.rj = "none" THEN FALSE ELSE hh.firedDuring \/ e.a = "RejoinFire" ]

Init == s = InitState /\ ev = Ev("Init", 0, "", <<>>) /\ out = <<>> /\ h = InitHist

ErrKinds == {"rebalance", "notcoord", "illegal", "unknown", "inconsistent", "timeout", "kafka", "other"}
Assignments == {<<>>, <<0>>, <<1>>, <<0, 1>>}
Events(st) ==
         {Ev(a, 0, "", <<>>) : a \in {"Start", "Stop", "MetaDone", "HbTick", "HbDone", "RejoinFire", "LeaveDone"}}
    \cup {Ev("PartsDone", n, "", <<>>) : n \in {2, 3}}
    \cup {Ev("CoordDone", x, "", <<>>) : x \in {0, 1}}
    \cup {Ev("CoordErr", 0, k, <<>>) : k \in {"notavail", "timeout", "kafka", "other"}}
    \cup {Ev(a, 0, k, <<>>) : a \in {"MetaErr", "PartsErr", "LeaveErr"}, k \in {"kafka", "other"}}
    \cup {Ev("JoinDone", (IF st.gen < 0 THEN 0 ELSE st.gen) + 1, k, <<m>>) : k \in {"leader", "follower"}, m \in {1, 2}}
    \cup {Ev(a, 0, k, <<>>) : a \in {"JoinErr", "SyncErr", "HbErr"}, k \in ErrKinds}
    \cup {Ev("SyncDone", 0, "", w) : w \in Assignments}
    \cup {Ev("CShut", p, k, <<>>) : p \in {0, 1}, k \in {"ok", "fail"}}
    \cup {Ev("CErr", p, k, <<>>) : p \in {0, 1}, k \in {"illegal", "unknown", "rebalance", "kafka", "other"}}

Fire(e) == Possible(s, e) /\ LET r == Step(s, e) IN s' = r.s /\ ev' = e /\ out' = r.out /\ h' = UpdHist(h, s, e, r)
Next == \E e \in Events(s) : Fire(e)
Spec == Init /\ [][Next]_vars
Bound == TLCGet("level") <= MaxDepth /\ s.rtimers <= 2 /\ s.gen <= 7

-----------------------------------------------------------------------------
(* States worth steering the implementation into (TLC finds a shortest behaviour; see check_group.py) *)
Goal_error_after_stale_timer == ev.a \in {"JoinErr", "SyncErr"} /\ ev.k = "rebalance" /\ h.firedDuring
Goal_stop_during_prepare == ev.a = "Stop" /\ s.rj = "prepare" /\ Len(s.closing) = 2
Goal_evicted_as_leader == ev.a = "HbErr" /\ ev.k = "illegal" /\ Len(s.cons) = 0 /\ h.joins >= 2
Goal_leader_again_more_partitions == ev.a = "PartsDone" /\ ev.x = 3 /\ h.leads >= 2
Goal_consumer_error_during_join == ev.a = "CErr" /\ s.rj \in {"coord", "meta"}

(* Property clauses *)
Has(o, tag) == \E i \in DOMAIN o : o[i][1] = tag
GroupRequests == {"coord", "join", "sync", "hb"}      \* (topic metadata loads are not group requests)

\* C16: a join request goes out only when no consumer of the previous generation is left (running or closing)
C16_join_clean == Has(out, "join") => s.cons = <<>> /\ s.closing = <<>>
\* consumers are started only for the partitions of the assignment just received, with the current generation and
\* member id, from the group's committed position
C16_start_current ==
    \A i \in DOMAIN out : out[i][1] = "cstart" =>
        ev.a = "SyncDone" /\ out[i][2] \in Range(ev.w) /\ out[i][3] = s.gen /\ out[i][4] = s.member /\ out[i][5] = 1
\* eviction stops the consumers in the same event, before anything else can happen
C16_evicted_stop ==
    (ev.a \in {"JoinErr", "SyncErr", "HbErr", "CErr"} /\ ev.k \in {"illegal", "unknown", "timeout"} /\ ~h.stoppedBefore) => s.cons = <<>>
\* one join/sync exchange at a time (rj is a single value by construction; the harness reports overlapping requests)
C16_one_exchange == ~Has(out, "overlap")
\* heartbeats only while a stable member
C16_hb_stable == Has(out, "hb") => ~s.rejoinNeeded /\ s.stop = "no" /\ s.hbRun
\* after stop nothing but the leave request
C16_quiet_after_stop == (h.stoppedBefore \/ ev.a = "Stop") => \A i \in DOMAIN out : out[i][1] \notin GroupRequests
\* C17: while started and not stopping the member is joining, stable with the heartbeat running, or waiting for a
\* scheduled rejoin
C17_never_idle ==
    (s.startD = "pending" /\ s.stop = "no") => (s.rj # "none" \/ s.rtimers > 0 \/ (s.hbRun /\ ~s.rejoinNeeded))
\* a failure that is not a Kafka error surfaces on the start Deferred (eventually: the stop it starts is in progress)
C17_fatal_surfaces ==
    (ev.k = "other" /\ ev.a \in {"CoordErr", "MetaErr", "PartsErr", "JoinErr", "SyncErr", "HbErr", "CErr"} /\ ~h.stoppedBefore)
        => s.stop # "no"
=============================================================================
