------------------------------- MODULE Murmur2 -------------------------------
(***************************************************************************)
(* MurmurHash2 (32 bit) as used by the Java Kafka client                   *)
(* (org.apache.kafka.common.utils.Utils.murmur2, seed 0x9747b28c), written *)
(* from the Java source.  TLC integers are 32-bit signed and overflow is   *)
(* an error, so a 32-bit word is a pair <<hi, lo>> of 16-bit limbs and     *)
(* multiplication is schoolbook on bytes.                                  *)
(*                                                                         *)
(* Used by property C18: the hashed partitioner must select                *)
(*   partitions[(Hash(key) & 0x7fffffff) % Len(partitions)].               *)
(***************************************************************************)
EXTENDS Naturals, Integers, Sequences, Bitwise

Byte == 0..255
W(hi, lo) == <<hi, lo>>

WXor(a, b) == <<a[1] ^^ b[1], a[2] ^^ b[2]>>

\* (a * b) mod 2^32
Mul(a, b) ==
    LET a0 == a[2] % 256  a1 == a[2] \div 256  a2 == a[1] % 256  a3 == a[1] \div 256
        b0 == b[2] % 256  b1 == b[2] \div 256  b2 == b[1] % 256  b3 == b[1] \div 256
        p0 == a0 * b0
        p1 == a0 * b1 + a1 * b0
        p2 == a0 * b2 + a1 * b1 + a2 * b0
        p3 == a0 * b3 + a1 * b2 + a2 * b1 + a3 * b0
        t1 == p1 + (p0 \div 256)
        t2 == p2 + (t1 \div 256)
        t3 == p3 + (t2 \div 256)
    IN <<(t3 % 256) * 256 + (t2 % 256), (t1 % 256) * 256 + (p0 % 256)>>

\* logical shift right (>>>) by 24, 13, 15
Shr24(a) == <<0, a[1] \div 256>>
Shr13(a) == LET v == a[1] * 8 + (a[2] \div 8192) IN <<v \div 65536, v % 65536>>
Shr15(a) == LET v == a[1] * 2 + (a[2] \div 32768) IN <<v \div 65536, v % 65536>>

Seed == W(38727, 45708)     \* 0x9747b28c
M    == W(23505, 59797)     \* 0x5bd1e995

\* mix the 4-byte little-endian word starting at data[i] into h
MixWord(h, data, i) ==
    LET k0 == <<data[i + 3] * 256 + data[i + 2], data[i + 1] * 256 + data[i]>>
        k1 == Mul(k0, M)
        k2 == WXor(k1, Shr24(k1))
        k3 == Mul(k2, M)
    IN WXor(Mul(h, M), k3)

RECURSIVE Words(_, _, _, _)
Words(h, data, i, n) == IF n = 0 THEN h ELSE Words(MixWord(h, data, i), data, i + 4, n - 1)

Hash(data) ==
    LET len   == Len(data)
        h0    == WXor(Seed, <<len \div 65536, len % 65536>>)
        h1    == Words(h0, data, 1, len \div 4)
        base  == (len \div 4) * 4          \* data[base+1 ..] is the tail
        extra == len % 4
        h2    == IF extra = 3 THEN WXor(h1, <<data[base + 3], 0>>) ELSE h1                \* << 16
        h3    == IF extra >= 2 THEN WXor(h2, <<0, data[base + 2] * 256>>) ELSE h2         \* << 8
        h4    == IF extra >= 1 THEN Mul(WXor(h3, <<0, data[base + 1]>>), M) ELSE h3
        h5    == Mul(WXor(h4, Shr13(h4)), M)
    IN WXor(h5, Shr15(h5))

\* as Java's signed int
Signed(h) == IF h[1] >= 32768 THEN (h[1] - 65536) * 65536 + h[2] ELSE h[1] * 65536 + h[2]
\* toPositive(h) = h & 0x7fffffff
Positive(h) == (h[1] % 32768) * 65536 + h[2]
\* the partition the Java DefaultPartitioner (and afkak's HashedPartitioner) picks
Pick(key, parts) == parts[(Positive(Hash(key)) % Len(parts)) + 1]

\* ASCII / byte strings of the anchor vectors
B(s) == s
\* Anchors: Apache Kafka's own UtilsTest.testMurmur2 (values produced by the Java client)
ASSUME Signed(Hash(<<50, 49>>)) = -973932308                                  \* "21"
ASSUME Signed(Hash(<<102, 111, 111, 98, 97, 114>>)) = -790332482              \* "foobar"
ASSUME Signed(Hash(<<97, 45, 108, 105, 116, 116, 108, 101, 45, 98, 105, 116, 45, 108, 111, 110, 103, 45, 115, 116, 114, 105, 110, 103>>)) = -985981536   \* "a-little-bit-long-string"
ASSUME Signed(Hash(<<97, 45, 108, 105, 116, 116, 108, 101, 45, 98, 105, 116, 45, 108, 111, 110, 103, 101, 114, 45, 115, 116, 114, 105, 110, 103>>)) = -1486304829   \* "a-little-bit-longer-string"
ASSUME Signed(Hash(<<108, 107, 106, 104, 50, 51, 52, 108, 104, 57, 102, 105, 117, 104, 57, 48, 121, 50, 51, 111, 105, 117, 104, 115, 97, 102, 117, 106, 104, 97, 100, 111, 102, 50, 50, 57, 112, 104, 114, 57, 104, 49, 57, 104, 56, 57, 104, 56>>)) = -58897971   \* "lkjh234lh9fiuh90y23oiuhsafujhadof229phr9h19h89h8"
ASSUME Signed(Hash(<<97, 98, 99>>)) = 479470107                               \* "abc"
=============================================================================
