----------------------------- MODULE GroupFence -----------------------------
(***************************************************************************)
(* Generation fencing and progress of group members, stated over what can  *)
(* be observed from outside (C16, C17): the coordinator's generation,      *)
(* membership and assignment; each member's identity, its running          *)
(* partition consumers with the generation and member id they commit with, *)
(* the requests it has outstanding and its timers; and the group requests  *)
(* that reached the wire during an event.                                  *)
(*                                                                         *)
(* The module validates executions of two real ConsumerGroup members over  *)
(* real KafkaClients and Consumers on a simulated cluster (groupfull.py):  *)
(* each recorded step is one state; the clauses are evaluated on it.       *)
(***************************************************************************)
EXTENDS Naturals, Integers, Sequences, FiniteSets, TLC, Json, IOUtils, TLCExt

Traces == JsonDeserialize(IOEnv.TRACE_FILE)
Names == {"A", "B"}
Range(f) == {f[i] : i \in DOMAIN f}

Running(r, n) == Range(r.members[n].consumers)           \* <<partition, generation, member id, TRUE>>
Started(r, n) == r.members[n].start = "pending" /\ r.members[n].stop = "none"
AssignOf(r, mid) == IF \E i \in DOMAIN r.coord.assign : r.coord.assign[i][1] = mid
                    THEN Range((CHOOSE x \in Range(r.coord.assign) : x[1] = mid)[2]) ELSE {}
WireOf(r, n, apis) == {w \in Range(r.wire) : w[1] = n /\ w[2] \in apis}

\* every running consumer commits with its member's current generation and member id
CurrentIdentity(r) ==
    \A n \in Names : \A c \in Running(r, n) : c[2] = r.members[n].gen /\ c[3] = r.members[n].member /\ c[2] >= 1 /\ c[3] # ""
\* consumers of the coordinator's current, settled generation run only what the coordinator assigned to their member
AssignedOnly(r) ==
    r.coord.state = "Stable" =>
        \A n \in Names : \A c \in Running(r, n) :
            (c[2] = r.coord.gen /\ c[3] \in Range(r.coord.members)) => c[1] \in AssignOf(r, c[3])
\* within one generation no partition is consumed twice
Exclusive(r) ==
    \A n1, n2 \in Names : \A c1 \in Running(r, n1) : \A c2 \in Running(r, n2) :
        (c1[1] = c2[1] /\ c1[2] = c2[2] /\ c1[2] = r.coord.gen) => (n1 = n2 /\ c1 = c2)
\* a member asks to join only when none of its consumers is left
JoinClean(r) == \A n \in Names : WireOf(r, n, {"join"}) # {} => Running(r, n) = {}
\* heartbeats carry the member's identity and are not sent while it is joining or syncing
HeartbeatStable(r) ==
    \A n \in Names : \A w \in WireOf(r, n, {"hb"}) :
        /\ w[3] = r.members[n].gen /\ w[4] = r.members[n].member
        /\ ~\E x \in Range(r.members[n].outstanding) : x \in {"join", "sync"}
\* commits of group consumers carry a generation and a member id the coordinator has handed out
CommitIdentity(r) == \A n \in Names : \A w \in WireOf(r, n, {"commit"}) : w[3] >= 1 /\ w[4] \in Range(r.coord.ever)
\* once stop() has completed nothing of the group protocol is sent.  (While stop() is in progress the wire can still
\* see requests the member issued before: the client queues group requests behind its coordinator lookup.  What the
\* member itself issues while stopping is judged at the member/client boundary by Group.tla.)
QuietAfterStop(r, prev) ==
    \* (a coordinator lookup the client had begun may still move on to its next host: it is the client's, not the member's)
    \A n \in Names : prev.members[n].stop = "done" => WireOf(r, n, {"join", "sync", "hb", "commit", "leave"}) = {}
\* a graceful consumer shutdown that reports success has committed everything it processed (so a member that rejoins
\* has committed its progress unless the coordinator refused)
CommitBeforeRejoin(r) == r.bad_shutdowns = <<>>
\* an unavailable / loading / moved coordinator is looked up again after the initial backoff (the member's own lookup) or
\* the retry backoff (a request of the protocol that could not be routed) -- not after the backoff for unexpected errors
LookupBackoff(r) ==
    (r.e.a = "Answer" /\ r.e.x \in {14, 15, 16}) =>
        \A n \in Names : (r.e.k = n \o ":coord") => \A d \in Range(r.members[n].rejoin_new) : d \in {100000, 1000000}
\* a started member always has something going on that leads back to membership
NeverIdle(r) ==
    \A n \in Names :
        Started(r, n) =>
            \/ \E x \in Range(r.members[n].outstanding) : x \in {"coord", "meta", "join", "sync", "commit", "ofetch", "offsets", "fetch"}
            \/ r.members[n].rejoin_timer > 0
            \/ r.members[n].client_timers > 0
            \/ (r.members[n].hb_timer > 0 /\ r.members[n].member # "" /\ Running(r, n) # {})
            \/ (r.members[n].hb_timer > 0 /\ r.members[n].member # "" /\ AssignOf(r, r.members[n].member) = {})

VARIABLES tid, l, viol
tvars == <<tid, l, viol>>
TInit == tid \in DOMAIN Traces /\ l = 1 /\ viol = {}
TNext ==
    /\ l <= Len(Traces[tid].steps)
    /\ LET r == Traces[tid].steps[l]
           prev == IF l = 1 THEN r ELSE Traces[tid].steps[l - 1]
           bad == (IF ~CurrentIdentity(r) THEN {"C16.current_identity"} ELSE {})
             \cup (IF ~AssignedOnly(r) THEN {"C16.assigned_only"} ELSE {})
             \cup (IF ~Exclusive(r) THEN {"C16.exclusive"} ELSE {})
             \cup (IF ~JoinClean(r) THEN {"C16.join_clean"} ELSE {})
             \cup (IF ~HeartbeatStable(r) THEN {"C16.hb_stable"} ELSE {})
             \cup (IF ~CommitIdentity(r) THEN {"C16.commit_identity"} ELSE {})
             \cup (IF l > 1 /\ ~QuietAfterStop(r, prev) THEN {"C16.quiet_after_stop"} ELSE {})
             \cup (IF ~NeverIdle(r) THEN {"C17.never_idle"} ELSE {})
             \cup (IF ~CommitBeforeRejoin(r) THEN {"C16.commit_before_rejoin"} ELSE {})
             \cup (IF ~LookupBackoff(r) THEN {"C17.lookup_backoff"} ELSE {})
             \cup (IF r.exc # "" THEN {"ENV.exception"} ELSE {})
       IN viol' = viol \cup {<<c, l>> : c \in bad}
    /\ l' = l + 1 /\ tid' = tid
TSpec == TInit /\ [][TNext]_tvars
Report == l > Len(Traces[tid].steps) => PrintT(<<"RESULT", tid, l - 1, viol, {}>>)
=============================================================================
