---------------------------- MODULE Framing_Trace ----------------------------
(* Validates recorded executions of KafkaProtocol / KafkaBootstrapProtocol fed with *)
(* chunked streams against Framing.  Each trace record: [st, mode, steps].           *)
EXTENDS Framing, Json, IOUtils, TLCExt

Traces == JsonDeserialize(IOEnv.TRACE_FILE)

VARIABLES tid, l, viol, drift
tvars == <<s, ev, out, h, tid, l, viol, drift>>

AsOut(o) == [up |-> o.up, lose |-> o.lose, fired |-> Range(o.fired)]
Clauses ==
    << <<"C06.reassembly", C06_reassembly>>, <<"C06.length_limit", C06_length_limit>>,
       <<"C06.boot_once", C06_boot_once>>, <<"C06.boot_own", C06_boot_own>> >>

TInit ==
    /\ tid \in DOMAIN Traces /\ l = 1 /\ viol = {} /\ drift = {}
    /\ s = InitState(Traces[tid].st) /\ ev = Ev("Init", 0) /\ out = NoOut /\ h = InitHist

TNext ==
    /\ l <= Len(Traces[tid].steps)
    /\ LET rec == Traces[tid].steps[l]
           e == rec.e
       IN IF ~Possible(s, e)
          THEN /\ viol' = viol \cup {<<"ENV.impossible", l>>}
               /\ l' = Len(Traces[tid].steps) + 1
               /\ UNCHANGED <<s, ev, out, h, tid, drift>>
          ELSE LET r == Step(s, e)
                   o == AsOut(rec.o)
               IN /\ s' = r.s /\ ev' = e /\ out' = o /\ h' = UpdHist(h, o)
                  /\ viol' = viol
                        \cup (IF r.out.up # o.up THEN {<<"C06.reassembly_step", l>>} ELSE {})
                        \cup (IF r.out.lose # o.lose THEN {<<"C06.length_limit_step", l>>} ELSE {})
                        \cup (IF r.out.fired # o.fired \/ Len(rec.o.fired) # Cardinality(o.fired)
                                 THEN {<<"C06.boot_outcome", l>>} ELSE {})
                        \cup {<<Clauses'[i][1], l>> : i \in {j \in DOMAIN Clauses : ~Clauses'[j][2]}}
                        \cup (IF rec.o.exc # "" THEN {<<"ENV.exception", l>>} ELSE {})
                  /\ drift' = drift
                  /\ l' = l + 1 /\ tid' = tid

TSpec == TInit /\ [][TNext]_tvars
Report == l > Len(Traces[tid].steps) => PrintT(<<"RESULT", tid, l - 1, viol, drift>>)
=============================================================================
