--------------------------- MODULE Producer_Trace ---------------------------
(* Validates producer-level executions (real Producer over a scripted client, or over the real *)
(* KafkaClient and a simulated cluster) against Producer.  A trace is [cfg, steps]; each step  *)
(* [e, known, o]: the event, the topics the client held metadata for when it happened, and     *)
(* the actions observed.  Full-stack traces also carry what the brokers applied, for C01.truth.*)
EXTENDS Producer, Json, IOUtils, TLCExt

Traces == JsonDeserialize(IOEnv.TRACE_FILE)
VARIABLES tid, l, viol, drift, log,
          lost      \* the model cannot follow the execution any more: only the clauses stated over observable actions are
                    \* evaluated from there on (on the history of the recorded actions)
tvars == <<s, ev, out, h, tid, l, viol, drift, log, lost>>

Kind(o, k) == SelectSeq(o, LAMBDA a : a[1] = k)
FiresOf(o) == {<<a[2], a[3]>> : a \in Range(Kind(o, "fire"))}
Timers(o) == [i \in DOMAIN Kind(o, "timer") |-> Kind(o, "timer")[i][2]]
Near(a, b) == (a - b) \in -2..2
TimersMatch(p, o) == Len(p) = Len(o) /\ \A i \in DOMAIN p : Near(p[i], o[i])

\* each field of the predicted action list is determined by a property clause
\* produce requests of an event; the order of payloads inside a request is not constrained
Calls(o) == [i \in DOMAIN Kind(o, "produce") |-> Range(Kind(o, "produce")[i][2])]
Tagged(p, o, e) ==
       (IF FiresOf(p) # FiresOf(o) \/ Len(Kind(p, "fire")) # Len(Kind(o, "fire"))
           THEN (IF e.a = "Stop" THEN {"C19.stop_fails_all", "C01.fails_on_stop"}
                 ELSE IF e.a = "Cancel" THEN {"C19.cancel", "C01.fails_on_cancel"}
                 ELSE {"C01.outcome"}) ELSE {})
  \cup (IF Calls(p) # Calls(o)
           THEN {IF h.afterStop \/ e.a = "Stop" THEN "C19.stop_transmits"
                 ELSE IF e.a \in {"Send", "Tick", "Cancel"} THEN "C19.dispatch"
                 ELSE IF e.a = "RetryFire" \/ (e.a = "ProduceDone" /\ Calls(p) = <<>>) THEN "C09.retry_failed_only"
                 ELSE "C09.dispatch"} ELSE {})
  \cup (IF ~TimersMatch(Timers(p), Timers(o)) THEN {IF h.afterStop \/ e.a = "Stop" THEN "C19.stop_timer" ELSE "C09.delays"} ELSE {})
Untagged(p, o, e) ==
       (IF Kind(p, "meta") # Kind(o, "meta") THEN {"meta"} ELSE {})
  \cup (IF Range(Kind(p, "reset")) # Range(Kind(o, "reset")) THEN {"reset"} ELSE {})

Clauses ==
    << <<"C01.once", C01_once>>, <<"C01.ok_only_from_ack", C01_ok_only_from_ack>>, <<"C09.order", C09_order>>,
       <<"C09.one_payload", C09_one_payload>>, <<"C09.attempts", C09_attempts>>, <<"C19.stop", C19_stop>> >>

ObsClauses ==
    << <<"C01.once", C01_once>>, <<"C01.ok_only_from_ack", C01_ok_only_from_ack>>, <<"C09.order", C09_order>>,
       <<"C09.one_payload", C09_one_payload>>, <<"C19.stop", C19_stop>> >>

\* C01 truth (full-stack traces): a send reported successful has its messages, in order and contiguous, in the
\* log of the partition it names, appended without error by the broker that led it
Applied(o) == IF "applied" \in DOMAIN o THEN o.applied ELSE <<>>
SubSeqOf(needle, hay) == \E i \in 0..(Len(hay) - Len(needle)) : \A j \in DOMAIN needle : hay[i + j] = needle[j]
Truth(o, lg, tr) ==
    \A a \in Range(Kind(o.acts, "fire")) :
        (a[3] = "ok" /\ tr.cfg.acks # 0 /\ "applied" \in DOMAIN o) =>
            \E k \in DOMAIN lg : lg[k].code = 0 /\ lg[k].leader /\ lg[k].topic = a[4][1] /\ lg[k].part = a[4][2]
                                 /\ SubSeqOf(tr.msgs[a[2]], lg[k].ids)

TInit ==
    /\ tid \in DOMAIN Traces /\ l = 1 /\ viol = {} /\ drift = {} /\ log = <<>> /\ lost = FALSE
    /\ s = InitState /\ ev = Ev("Init", 0, 0) /\ out = <<>> /\ h = InitHist

TNext ==
    /\ l <= Len(Traces[tid].steps)
    /\ LET tr == Traces[tid]
           rec == tr.steps[l]
           e == rec.e
           s0 == [s EXCEPT !.kn = Range(rec.known)]
       IN IF e.a = "Unexecutable"
          THEN /\ viol' = viol \cup (IF lost THEN {} ELSE {<<"ENV.impossible", l>>})
               /\ l' = Len(tr.steps) + 1
               /\ UNCHANGED <<s, ev, out, h, tid, drift, log, lost>>
          ELSE IF lost \/ ~Possible(s0, e)
          THEN LET o == [i \in DOMAIN rec.o.acts |-> IF rec.o.acts[i][1] = "fire" THEN <<"fire", rec.o.acts[i][2], rec.o.acts[i][3]>> ELSE rec.o.acts[i]]
               IN /\ lost' = TRUE /\ s' = s /\ ev' = e /\ out' = o
                  /\ h' = UpdHist(h, s, e, [s |-> s, out |-> o])
                  /\ log' = log \o Applied(rec.o)
                  /\ viol' = viol \cup (IF lost THEN {} ELSE {<<"ENV.impossible", l>>})
                                  \cup {<<ObsClauses'[i][1], l>> : i \in {j \in DOMAIN ObsClauses : ~ObsClauses'[j][2]}}
                                  \cup (IF ~Truth(rec.o, log', tr) THEN {<<"C01.truth", l>>} ELSE {})
                  /\ drift' = drift /\ l' = l + 1 /\ tid' = tid
          ELSE LET r == Step(s0, e)
                   o == [i \in DOMAIN rec.o.acts |-> IF rec.o.acts[i][1] = "fire" THEN <<"fire", rec.o.acts[i][2], rec.o.acts[i][3]>> ELSE rec.o.acts[i]]
               IN /\ s' = r.s /\ ev' = e /\ out' = o
                  /\ h' = UpdHist(h, s0, e, [s |-> r.s, out |-> o])
                  /\ log' = log \o Applied(rec.o)
                  /\ viol' = viol
                        \cup {<<c, l>> : c \in Tagged(r.out, o, e)}
                        \cup {<<Clauses'[i][1], l>> : i \in {j \in DOMAIN Clauses : ~Clauses'[j][2]}}
                        \cup (IF ~Truth(rec.o, log', tr) THEN {<<"C01.truth", l>>} ELSE {})
                        \* timers of the producer still armed after the event (lookup retries, produce retry)
                        \cup (IF rec.o.pending # Cardinality(r.s.wtimer) + (IF r.s.phase = "retry" THEN 1 ELSE 0)
                                 THEN {<<IF r.s.stopped THEN "C19.stop_timer" ELSE "C09.timers", l>>} ELSE {})
                        \cup (IF rec.o.exc # "" THEN {<<"ENV.exception", l>>} ELSE {})
                  /\ drift' = drift \cup {<<f, l>> : f \in Untagged(r.out, o, e)}
                  /\ (viol' # viol /\ IOEnv.TRACE_DEBUG = "1" => PrintT(<<"MISMATCH", tid, l, r.out, s0>>))
                  /\ l' = l + 1 /\ tid' = tid /\ lost' = lost

TSpec == TInit /\ [][TNext]_tvars
Report == l > Len(Traces[tid].steps) => PrintT(<<"RESULT", tid, l - 1, viol, drift>>)
=============================================================================
