------------------------ MODULE ClientRouting_Trace ------------------------
(* Validates executions of the real KafkaClient (over real broker clients, a simulated  *)
(* network and a simulated cluster) against ClientRouting.  Each recorded reactor event *)
(* advances the abstract state with the design module's Step; the observations it       *)
(* predicts are compared with the recorded ones field by field, each field tagged with  *)
(* the property clause that determines it; the design's clause operators are evaluated  *)
(* on the observed outputs as well.                                                     *)
EXTENDS ClientRouting, Json, IOUtils, TLCExt

Traces == JsonDeserialize(IOEnv.TRACE_FILE)
VARIABLES tid, l, viol, drift
tvars == <<s, ev, out, h, tid, l, viol, drift>>

\* recorded observations in the shape of `out`
\* the kind of failure is informational (any failure satisfies the properties): detail dropped
Norm(fs) == {IF f[2] = "failed" THEN <<f[1], "failed", <<>>>> ELSE f : f \in fs}
AsOut(o) == [ issued |-> o.issued, wire |-> Range(o.wire), fired |-> Norm(Range(o.fired)), lost |-> Range(o.lost),
              closeFired |-> o.closeFired, usedOrd |-> FALSE, usedBord |-> FALSE ]
CacheOf(o) == [parts |-> o.cache.parts, leader |-> [tp \in TPs |-> o.cache.leader[IF tp = <<"a", 0>> THEN 1 ELSE IF tp = <<"a", 1>> THEN 2 ELSE 3]],
               err |-> o.cache.err, coord |-> o.cache.coord]

Kinds(fs) == {<<f[1], f[2]>> : f \in fs}
\* details are compared for the outcomes whose content the properties determine
\* (the order in which failed payloads are listed is not constrained)
Details(fs) == {IF f[2] = "failed_payloads" THEN <<f[1], f[2], f[3][1], SeqToSet(f[3][2])>> ELSE f : f \in {g \in fs : g[2] \in {"ok", "failed_payloads"}}}
Routed(ws) == {w \in ws : w[2] \in {"produce", "commit"}}
Unaware(ws) == {w \in ws : w[2] \in {"meta", "coord"}}
\* a bootstrap attempt is observed as a connection attempt to that host; what it carries is seen on the wire
IssuedOf(q, ks) == LET qq == SelectSeq(q, LAMBDA x : x[2] \in ks \/ x[2] = "boot") IN
                   [i \in DOMAIN qq |-> IF qq[i][1] \in Boot THEN <<qq[i][1], "boot", <<>>, <<>>>> ELSE qq[i]]

\* within one reactor event the interleaving of different operations' requests is not meaningful: bags
Bag(q) == [x \in Range(q) |-> Cardinality({i \in DOMAIN q : q[i] = x})]
Tagged(p, o, e, pc, oc) ==
       (IF Routed(p.wire) # Routed(o.wire) THEN {"C07.route"} ELSE {})
  \cup (IF Bag(SelectSeq(p.issued, LAMBDA x : x[2] \in {"produce", "commit"})) # Bag(SelectSeq(o.issued, LAMBDA x : x[2] \in {"produce", "commit"}))
           THEN {"C07.one_per_broker"} ELSE {})
  \cup (IF Bag(IssuedOf(p.issued, {"meta", "coord"})) # Bag(IssuedOf(o.issued, {"meta", "coord"})) \/ Unaware(p.wire) # Unaware(o.wire)
           THEN {IF e.a = "Close" \/ h.afterClose THEN "C20.no_connect_after" ELSE "C07.unaware_order"} ELSE {})
  \cup (IF Details(p.fired) # Details(o.fired) THEN {"C07.order_account"} ELSE {})
  \cup (IF Kinds(p.fired) # Kinds(o.fired)
           THEN {IF e.a = "Timeout" THEN "C11.bound"
                 ELSE IF e.a = "Close" \/ h.afterClose THEN "C20.fail_pending"
                 ELSE IF e.a = "Answer" /\ p.fired = {} THEN "C11.late_inert"
                 ELSE "C07.outcome"} ELSE {})
  \cup (IF pc # oc THEN {IF e.a = "Close" \/ h.afterClose THEN "C20.cache_cleared"
                         ELSE IF e.a = "Answer" /\ p.fired = {} /\ o.fired = {} THEN "C08.mirror" ELSE "C08.invalidate"} ELSE {})
  \cup (IF p.lost # o.lost THEN {IF e.a = "Timeout" THEN "C11.disconnect_on_timeout"
                                 ELSE IF e.a = "Close" \/ h.afterClose THEN "C20.all_closed" ELSE "C08.prune"} ELSE {})
  \cup (IF p.closeFired # o.closeFired THEN {"C20.close_fires_last"} ELSE {})
  \* with disconnect-on-timeout, what is (re-)written to the brokers when request timers fire is C11's business
  \cup (IF DisconnectOnTimeout /\ e.a = "Timeout" /\ (Routed(p.wire) # Routed(o.wire) \/ Unaware(p.wire) # Unaware(o.wire))
           THEN {"C11.resend_after_disconnect"} ELSE {})

Clauses ==
    << <<"C07.order_account_inv", C07_order_account>>, <<"C07.once", OpsOnce>> >>

TInit ==
    /\ tid \in DOMAIN Traces /\ l = 1 /\ viol = {} /\ drift = {}
    /\ s = InitState /\ ev = Ev0 /\ out = NoOut /\ h = InitHist

TNext ==
    /\ l <= Len(Traces[tid])
    /\ LET rec == Traces[tid][l]
           e == rec.e
       IN IF e.a = "Unexecutable" \/ ~Possible(s, e)
          THEN /\ viol' = viol \cup {<<"ENV.impossible", l>>}
               /\ l' = Len(Traces[tid]) + 1
               /\ UNCHANGED <<s, ev, out, h, tid, drift>>
          ELSE \E rank \in (IF e.a = "Answer" /\ e.k # <<>> /\ Len(Matching(s, e)) > 1 THEN 1..Len(Matching(s, e)) ELSE {0}) :
               \* (several requests on this target look the same on the wire: which operation's request the broker
               \*  answered was not logged -- every candidate is tried, the trace is judged by its best explanation)
               LET r0 == Step(s, IF rank = 0 THEN e ELSE [e EXCEPT !.k = Append(@, rank)])
                   r == [s |-> r0.s, out |-> [r0.out EXCEPT !.fired = Norm(@)]]
                   o == AsOut(rec.o)
               IN /\ s' = r.s /\ ev' = e /\ out' = o
                  /\ h' = UpdHist(h, e, o)
                  /\ viol' = viol
                        \cup {<<c, l>> : c \in Tagged(r.out, o, e, Cache(r.s), CacheOf(rec.o))}
                        \cup (IF \E i \in DOMAIN h'.fires : h'.fires[i] > 1 THEN {<<"C07.once", l>>} ELSE {})
                        \* a broker client (re)connects to the address the latest metadata gave for its node
                        \cup (IF \E k \in Range(rec.o.kick) : k[1] \in B /\ r.s.cb[k[1]] # k[2] THEN {<<"C08.readdress", l>>} ELSE {})
                        \cup (IF rec.o.exc # "" THEN {<<"ENV.exception", l>>} ELSE {})
                  /\ drift' = drift
                  /\ (Tagged(r.out, o, e, Cache(r.s), CacheOf(rec.o)) # {} /\ IOEnv.TRACE_DEBUG = "1"
                        => PrintT(<<"MISMATCH", tid, l, r.out, Cache(r.s), s.inbox,
                                     [i \in DOMAIN s.reqs |-> <<i, s.reqs[i].op, s.reqs[i].kind, s.reqs[i].tgt, s.reqs[i].live, s.reqs[i].sent>>],
                                     [i \in DOMAIN s.ops |-> <<i, s.ops[i].kind, s.ops[i].st>>]>>))
                  /\ l' = l + 1 /\ tid' = tid

TSpec == TInit /\ [][TNext]_tvars
Report == l > Len(Traces[tid]) => PrintT(<<"RESULT", tid, l - 1, viol, drift>>)
=============================================================================
