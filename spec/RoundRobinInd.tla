--------------------------- MODULE RoundRobinInd ---------------------------
(***************************************************************************)
(* C18, round-robin fairness for runs of ANY length (Partitioner.tla       *)
(* checks it with TLC up to a bound): over an unchanged list of N          *)
(* partitions, selecting cyclically from an arbitrary start keeps the      *)
(* numbers of selections of any two partitions within one of each other,   *)
(* and after every k*N selections all are equal.  Proved as an inductive   *)
(* invariant with Apalache (Init => IndInv, IndInv /\ Next => IndInv').    *)
(***************************************************************************)
EXTENDS Integers

N == 4          \* partitions in the list (positions 0..N-1); the argument does not depend on the value

VARIABLES
    \* @type: Int;
    start,      \* position the cycle began at
    \* @type: Int;
    pos,        \* next position to select
    \* @type: Int;
    total,      \* selections so far
    \* @type: Int -> Int;
    cnt         \* selections per position

Pos == 0..(N - 1)
Init == start \in Pos /\ pos = start /\ total = 0 /\ cnt = [j \in Pos |-> 0]
Next == /\ cnt' = [cnt EXCEPT ![pos] = @ + 1]
        /\ pos' = (pos + 1) % N
        /\ total' = total + 1
        /\ UNCHANGED start

\* how far position j lies behind the start of the cycle, walking forward
Off(j) == (j - start + N) % N
IndInv ==
    /\ start \in Pos /\ pos \in Pos /\ total >= 0
    /\ pos = (start + total) % N
    /\ cnt \in [Pos -> Int]
    /\ \A j \in Pos : cnt[j] = (total \div N) + (IF Off(j) < total % N THEN 1 ELSE 0)
\* the same, in the form Apalache needs for an initial-state predicate (every variable assigned)
IndInit ==
    /\ start \in Pos /\ total \in Nat
    /\ pos = (start + total) % N
    /\ cnt = [j \in Pos |-> (total \div N) + (IF Off(j) < total % N THEN 1 ELSE 0)]
\* the fairness clauses
Fair == /\ \A i, j \in Pos : cnt[i] - cnt[j] <= 1
        /\ (total % N = 0 => \A i, j \in Pos : cnt[i] = cnt[j])
=============================================================================
