----------------------------- MODULE Group_Live -----------------------------
(***************************************************************************)
(* C17, the liveness half: once faults cease, a started member that has    *)
(* not been stopped (and has not failed with a fatal error) settles as a   *)
(* stable member with its heartbeat running -- for every finite prefix of  *)
(* failures, under weak fairness of each kind of fault-free event.         *)
(*                                                                         *)
(* The state machine is Group's Step; histories are dropped and generation *)
(* numbers recycled (they are only identifiers) so that the state space is *)
(* finite without a depth bound.  Checked with KF_SwallowFatal = FALSE:    *)
(* with the recorded finding a swallowed fatal error wedges the member.    *)
(***************************************************************************)
EXTENDS Group

LGen(st) == IF st.gen = 1 THEN 2 ELSE 1
LMember(st) == IF st.member # 0 THEN st.member ELSE 1
GoodKinds == {"CoordDone", "MetaDone", "JoinDone", "PartsDone", "SyncDone", "HbTick", "HbDone", "RejoinFire", "CShut", "LeaveDone"}
GoodEvents(st, a) ==
    CASE a = "CoordDone" -> {Ev("CoordDone", 1, "", <<>>)}
      [] a = "JoinDone"  -> {Ev("JoinDone", LGen(st), k, <<LMember(st)>>) : k \in {"leader", "follower"}}
      [] a = "PartsDone" -> {Ev("PartsDone", 2, "", <<>>)}
      [] a = "SyncDone"  -> {Ev("SyncDone", 0, "", w) : w \in Assignments}
      [] a = "CShut"     -> {Ev("CShut", p, "ok", <<>>) : p \in {0, 1}}
      [] OTHER           -> {Ev(a, 0, "", <<>>)}
BadEvents(st) ==
         {Ev("Stop", 0, "", <<>>), Ev("CoordDone", 0, "", <<>>)}
    \cup {Ev("CoordErr", 0, k, <<>>) : k \in {"notavail", "timeout", "kafka", "other"}}
    \cup {Ev(a, 0, k, <<>>) : a \in {"MetaErr", "PartsErr", "LeaveErr"}, k \in {"kafka", "other"}}
    \cup {Ev(a, 0, k, <<>>) : a \in {"JoinErr", "SyncErr", "HbErr"}, k \in ErrKinds}
    \cup {Ev("CShut", p, "fail", <<>>) : p \in {0, 1}}
    \cup {Ev("CErr", p, k, <<>>) : p \in {0, 1}, k \in {"illegal", "unknown", "rebalance", "kafka", "other"}}

LFire(e) == Possible(s, e) /\ s' = Step(s, e).s /\ ev' = e /\ out' = <<>> /\ h' = InitHist
Good(a) == \E e \in GoodEvents(s, a) : LFire(e)
GoodNext == \E a \in GoodKinds : Good(a)
LNext == GoodNext \/ LFire(Ev("Start", 0, "", <<>>)) \/ \E e \in BadEvents(s) : LFire(e)
LSpec == Init /\ [][LNext]_vars /\ \A a \in GoodKinds : WF_vars(Good(a))
LBound == s.rtimers <= 3

Stable == s.startD = "pending" /\ s.stop = "no" /\ ~s.rejoinNeeded /\ s.hbRun /\ s.rj = "none"
Over == s.startD # "pending" \/ s.stop # "no"          \* never started, stopped, stopping, or failed fatally
\* once faults cease the member becomes and stays a stable member
C17_settles == (<>[][GoodNext]_vars) => <>[](Stable \/ Over)
=============================================================================
