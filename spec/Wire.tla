-------------------------------- MODULE Wire --------------------------------
(***************************************************************************)
(* The subset of the Kafka protocol that afkak speaks, written from the    *)
(* protocol guide (DESIGN.md appendix A), as an encoder from abstract      *)
(* syntax (TLA+ records) to bytes.  Properties C04 (requests), C05         *)
(* (responses, message sets) and C12 (checksums, truncation, hostile       *)
(* lengths) use it as the independent definition of the grammar.           *)
(*                                                                         *)
(* An encoding is a sequence of SEGMENTS <<kind, bytes>>, kind in          *)
(*   "d"  plain data      "n" a length or count field                      *)
(* so that the positions of every length/count field are known (C12).      *)
(* Bytes(segs) is the wire form.                                           *)
(*                                                                         *)
(* Abstract values: INT8/16/32 are integers; INT64 is <<a,b,c,d>>, four    *)
(* 16-bit limbs, most significant first (TLC integers are 32-bit);         *)
(* a nullable string / bytes field is <<>> (null) or <<s>> (s a sequence   *)
(* of bytes); a non-nullable string is a sequence of bytes.                *)
(***************************************************************************)
EXTENDS Naturals, Integers, Sequences, CRC32

D(bytes) == <<<<"d", bytes>>>>
N(bytes) == <<<<"n", bytes>>>>
RECURSIVE Cat(_)
Cat(ss) == IF ss = <<>> THEN <<>> ELSE Head(ss) \o Cat(Tail(ss))
Bytes(segs) == Cat([i \in DOMAIN segs |-> segs[i][2]])
SegLen(segs) == Len(Bytes(segs))

\* two's complement, big endian
B8(n)  == <<IF n < 0 THEN n + 256 ELSE n>>
B16(n) == LET m == IF n < 0 THEN n + 65536 ELSE n IN <<m \div 256, m % 256>>
B32(n) == IF n >= 0 THEN <<n \div 16777216, (n \div 65536) % 256, (n \div 256) % 256, n % 256>>
          ELSE LET m == (n + 2147483647) + 1      \* n + 2^31, in 0 .. 2^31-1
               IN <<128 + (m \div 16777216), (m \div 65536) % 256, (m \div 256) % 256, m % 256>>
B64(l) == <<l[1] \div 256, l[1] % 256, l[2] \div 256, l[2] % 256,
            l[3] \div 256, l[3] % 256, l[4] \div 256, l[4] % 256>>
L64(n) == <<0, 0, n \div 65536, n % 65536>>        \* a small non-negative INT64
Minus1 == <<65535, 65535, 65535, 65535>>

I8(n) == D(B8(n))   I16(n) == D(B16(n))   I32(n) == D(B32(n))   I64(l) == D(B64(l))
Str(s)    == N(B16(Len(s))) \o D(s)
NStr(x)   == IF x = <<>> THEN N(B16(-1)) ELSE Str(x[1])
NBytes(x) == IF x = <<>> THEN N(B32(-1)) ELSE N(B32(Len(x[1]))) \o D(x[1])
\* ARRAY: int32 count, then the elements (each already a sequence of segments)
Array(elems) == N(B32(Len(elems))) \o Cat(elems)
Map(f(_), seq) == [i \in DOMAIN seq |-> f(seq[i])]

-----------------------------------------------------------------------------
(* Messages and message sets *)
\* m: [magic, attrs, ts (INT64 limbs, magic 1 only), key, value (nullable bytes)]
MsgBody(m) ==
    Bytes(I8(m.magic) \o I8(m.attrs) \o (IF m.magic = 1 THEN I64(m.ts) ELSE <<>>) \o NBytes(m.key) \o NBytes(m.value))
MsgBytes(m) == WordBytes(Crc32(MsgBody(m))) \o MsgBody(m)
\* entry: [off (INT64 limbs), m]
Entry(e) == LET b == MsgBytes(e.m) IN I64(e.off) \o N(B32(Len(b))) \o D(b)
MsgSet(entries) == Cat(Map(Entry, entries))
\* a message set preceded by its size in bytes
SizedMsgSet(entries) == LET s == MsgSet(entries) IN N(B32(SegLen(s))) \o s

-----------------------------------------------------------------------------
(* Requests.  r: [api, ver, corr, client (nullable string), body] *)
Header(r) == I16(r.api) \o I16(r.ver) \o I32(r.corr) \o NStr(r.client)

TopicArray(topics, part(_)) ==
    Array(Map(LAMBDA t : Str(t.topic) \o Array(Map(part, t.parts)), topics))

ReqBody(r) ==
    LET b == r.body IN
    CASE r.api = 0 ->   \* Produce v0, v2: acks timeout [topic [partition record_set]]
           I16(b.acks) \o I32(b.timeout) \o
           TopicArray(b.topics, LAMBDA p : I32(p.partition) \o SizedMsgSet(p.msgs))
      [] r.api = 1 ->   \* Fetch v0, v2: replica(-1) max_wait min_bytes [topic [partition offset max_bytes]]
           I32(-1) \o I32(b.max_wait) \o I32(b.min_bytes) \o
           TopicArray(b.topics, LAMBDA p : I32(p.partition) \o I64(p.offset) \o I32(p.max_bytes))
      [] r.api = 2 ->   \* ListOffsets v0: replica(-1) [topic [partition timestamp max_offsets]]
           I32(-1) \o TopicArray(b.topics, LAMBDA p : I32(p.partition) \o I64(p.time) \o I32(p.max_offsets))
      [] r.api = 3 ->   \* Metadata v0: [topic]
           Array(Map(Str, b.topics))
      [] r.api = 8 ->   \* OffsetCommit v1: group generation member [topic [partition offset timestamp metadata]]
           Str(b.group) \o I32(b.generation) \o Str(b.member) \o
           TopicArray(b.topics, LAMBDA p : I32(p.partition) \o I64(p.offset) \o I64(p.timestamp) \o NStr(p.metadata))
      [] r.api = 9 ->   \* OffsetFetch v1: group [topic [partition]]
           Str(b.group) \o TopicArray(b.topics, LAMBDA p : I32(p))
      [] r.api = 10 ->  \* FindCoordinator v0: group
           Str(b.group)
      [] r.api = 11 ->  \* JoinGroup v0: group session_timeout member protocol_type [name metadata]
           Str(b.group) \o I32(b.session_timeout) \o Str(b.member) \o Str(b.protocol_type) \o
           Array(Map(LAMBDA p : Str(p.name) \o NBytes(p.metadata), b.protocols))
      [] r.api = 14 ->  \* SyncGroup v0: group generation member [member assignment]
           Str(b.group) \o I32(b.generation) \o Str(b.member) \o
           Array(Map(LAMBDA a : Str(a.member) \o NBytes(a.assignment), b.assignments))
      [] r.api = 12 ->  \* Heartbeat v0: group generation member
           Str(b.group) \o I32(b.generation) \o Str(b.member)
      [] r.api = 13 ->  \* LeaveGroup v0: group member
           Str(b.group) \o Str(b.member)
      [] r.api = 18 ->  \* ApiVersions v0: empty
           <<>>
EncReq(r) == Header(r) \o ReqBody(r)

\* The header's version is the version whose layout the body follows and whose message
\* format the record sets use: Produce v0 carries magic 0, Produce v2 carries magic <= 1.
MagicOK(r) ==
    r.api = 0 => \A i \in DOMAIN r.body.topics : \A j \in DOMAIN r.body.topics[i].parts :
                    \A k \in DOMAIN r.body.topics[i].parts[j].msgs :
                        r.body.topics[i].parts[j].msgs[k].m.magic <= (IF r.ver >= 2 THEN 1 ELSE 0)

-----------------------------------------------------------------------------
(* Responses.  r: [api, ver, corr, body] *)
RespBody(r) ==
    LET b == r.body IN
    CASE r.api = 0 ->   \* Produce v0: [topic [partition error base_offset]] ; v2: ... log_append_time] throttle
           TopicArray(b.topics, LAMBDA p : I32(p.partition) \o I16(p.error) \o I64(p.offset) \o
                                           (IF r.ver >= 2 THEN I64(p.log_append_time) ELSE <<>>))
           \o (IF r.ver >= 1 THEN I32(b.throttle) ELSE <<>>)
      [] r.api = 1 ->   \* Fetch v0: [topic [partition error high_watermark record_set]] ; v2: throttle first
           (IF r.ver >= 1 THEN I32(b.throttle) ELSE <<>>) \o
           TopicArray(b.topics, LAMBDA p : I32(p.partition) \o I16(p.error) \o I64(p.hwm) \o SizedMsgSet(p.msgs))
      [] r.api = 2 ->   \* ListOffsets v0: [topic [partition error [offset]]]
           TopicArray(b.topics, LAMBDA p : I32(p.partition) \o I16(p.error) \o Array(Map(I64, p.offsets)))
      [] r.api = 3 ->   \* Metadata v0: [node host port] [error topic [error partition leader [replica] [isr]]]
           Array(Map(LAMBDA n : I32(n.node) \o Str(n.host) \o I32(n.port), b.brokers)) \o
           Array(Map(LAMBDA t : I16(t.error) \o Str(t.topic) \o
                        Array(Map(LAMBDA p : I16(p.error) \o I32(p.partition) \o I32(p.leader) \o
                                             Array(Map(I32, p.replicas)) \o Array(Map(I32, p.isr)), t.parts)),
                     b.topics))
      [] r.api = 8 ->   \* OffsetCommit v1: [topic [partition error]]
           TopicArray(b.topics, LAMBDA p : I32(p.partition) \o I16(p.error))
      [] r.api = 9 ->   \* OffsetFetch v1: [topic [partition offset metadata error]]
           TopicArray(b.topics, LAMBDA p : I32(p.partition) \o I64(p.offset) \o NStr(p.metadata) \o I16(p.error))
      [] r.api = 10 ->  \* FindCoordinator v0: error node host port
           I16(b.error) \o I32(b.node) \o Str(b.host) \o I32(b.port)
      [] r.api = 11 ->  \* JoinGroup v0: error generation protocol leader member [member metadata]
           I16(b.error) \o I32(b.generation) \o Str(b.protocol) \o Str(b.leader) \o Str(b.member) \o
           Array(Map(LAMBDA m : Str(m.member) \o NBytes(m.metadata), b.members))
      [] r.api = 14 ->  \* SyncGroup v0: error assignment
           I16(b.error) \o NBytes(b.assignment)
      [] r.api = 12 -> I16(b.error)
      [] r.api = 13 -> I16(b.error)
      [] r.api = 18 ->  \* ApiVersions v0: error [api_key min max]
           I16(b.error) \o Array(Map(LAMBDA v : I16(v[1]) \o I16(v[2]) \o I16(v[3]), b.versions))
EncResp(r) == I32(r.corr) \o RespBody(r)

-----------------------------------------------------------------------------
(* Consumer embedded protocol *)
Subscription(s) == I16(s.version) \o Array(Map(Str, s.topics)) \o NBytes(s.user_data)
AssignmentEnc(a) == I16(a.version) \o
    Array(Map(LAMBDA t : Str(t.topic) \o Array(Map(I32, t.parts)), a.topics)) \o NBytes(a.user_data)
=============================================================================
