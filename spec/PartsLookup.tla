---------------------------- MODULE PartsLookup ----------------------------
(***************************************************************************)
(* KafkaClient._load_topic_partitions: the group leader's partition lookup *)
(* with its own retry loop (C17, "leader loads partition metadata").       *)
(*                                                                         *)
(* One state per scenario: the sequence of what successive metadata        *)
(* answers say about the two requested topics.  The lookup asks again      *)
(* after the retry delay until one answer shows every requested topic      *)
(* without error and with partitions; it then completes with exactly the   *)
(* partitions of that answer.  What an earlier answer said must not        *)
(* matter.                                                                 *)
(***************************************************************************)
EXTENDS Naturals, Integers, Sequences, FiniteSets, TLC

CONSTANT MaxLen
Answers == {"ok", "errA", "errB", "errBoth"}      \* per metadata answer: which requested topic is in error
Good(a) == a = "ok"
Scenarios == UNION {[1..n -> Answers] : n \in 1..MaxLen}

FirstGood(sq) == IF \E i \in DOMAIN sq : Good(sq[i]) THEN CHOOSE i \in DOMAIN sq : Good(sq[i]) /\ \A j \in 1..(i - 1) : ~Good(sq[j]) ELSE 0
Expected(sq) ==
    LET g == FirstGood(sq) IN
    [ requests |-> IF g = 0 THEN Len(sq) ELSE g,      \* metadata requests issued while the scripted answers last
      completes |-> g # 0,
      retries |-> (IF g = 0 THEN Len(sq) ELSE g - 1) ] \* retry timers armed

VARIABLE sq
Init == sq \in Scenarios
Next == UNCHANGED sq
\* it never gives up while answers are bad, and never asks again after a good one
Sane == LET e == Expected(sq) IN e.requests <= Len(sq) /\ (e.completes <=> \E i \in DOMAIN sq : Good(sq[i]))
Emit == PrintT(<<"VEC", sq, Expected(sq)>>)
=============================================================================
