--------------------------- MODULE Assignment_Trace ---------------------------
(* Validates what the real leader-side assignment and member-side decoding produced.   *)
(* A trace = one input with the result obtained for EVERY order of the member list;    *)
(* record: [ms: Seq(member), subs: Seq over members of Seq(topic), topics: Seq(topic), *)
(*          parts: Seq over topics of Seq(partition), runs: Seq of results],           *)
(* a result being a Seq over members (in ms order) of Seq of <<topic, partition>>.     *)
EXTENDS Assignment, Json, IOUtils, TLCExt

Traces == JsonDeserialize(IOEnv.TRACE_FILE)
VARIABLES tid, l, viol, drift
tvars == <<in, tid, l, viol, drift>>

InOf(tr) ==
    [ ms |-> Range(tr.ms),
      subs |-> [m \in Range(tr.ms) |-> Range(tr.subs[CHOOSE i \in DOMAIN tr.ms : tr.ms[i] = m])],
      parts |-> [t \in Range(tr.topics) |-> Range(tr.parts[CHOOSE i \in DOMAIN tr.topics : tr.topics[i] = t])] ]
ResOf(tr, run) ==
    [m \in Range(tr.ms) |-> Range(run[CHOOSE i \in DOMAIN tr.ms : tr.ms[i] = m])]
\* duplicates inside one member's decoded list would be hidden by the set conversion
NoDup(run) == \A i \in DOMAIN run : \A a, b \in DOMAIN run[i] : a # b => run[i][a] # run[i][b]

TInit == /\ tid \in DOMAIN Traces /\ l = 1 /\ viol = {} /\ drift = {}
         /\ in = InOf(Traces[tid])
TNext ==
    /\ l <= Len(Traces[tid].runs)
    /\ LET tr == Traces[tid]
           res == ResOf(tr, tr.runs[l])
       IN /\ viol' = viol
                \cup (IF ~ExactlyOnce(in, res) \/ ~NoDup(tr.runs[l]) THEN {<<"C15.exactly_once", l>>} ELSE {})
                \cup (IF ~OnlySubscribed(in, res) THEN {<<"C15.only_subscribed", l>>} ELSE {})
                \cup (IF ~Balanced(in, res) THEN {<<"C15.balanced", l>>} ELSE {})
                \cup (IF res # ResOf(tr, tr.runs[1]) THEN {<<"C15.order_independent", l>>} ELSE {})
          /\ drift' = drift \cup (IF res # RoundRobin(in) THEN {<<"algorithm", l>>} ELSE {})
          /\ l' = l + 1 /\ UNCHANGED <<in, tid>>
TSpec == TInit /\ [][TNext]_tvars
Report == l > Len(Traces[tid].runs) => PrintT(<<"RESULT", tid, l - 1, viol, drift>>)
=============================================================================
