------------------------------ MODULE Assignment ------------------------------
(***************************************************************************)
(* The group leader's partition assignment (property C15).                 *)
(*                                                                         *)
(* Members and topics are natural numbers whose order is the order of      *)
(* their names.  An input is                                               *)
(*   ms    : the set of member ids                                         *)
(*   subs  : member -> set of topics it subscribes to                      *)
(*   parts : topic  -> set of partition ids                                *)
(* and a result maps each member to a set of <<topic, partition>>.         *)
(*                                                                         *)
(* RoundRobin is the algorithm afkak documents (copied from kafka-python): *)
(* all partitions of all subscribed topics in (topic, partition) order are *)
(* dealt to the members in id order, skipping members not subscribed to    *)
(* the topic.  The property clauses below do not mention the algorithm:    *)
(* they are checked (i) on RoundRobin for every input in the domain and    *)
(* (ii) on what the real generate_assignments/decode_assignment returned.  *)
(***************************************************************************)
EXTENDS Naturals, Sequences, FiniteSets, SequencesExt, TLC

Topics(in) == UNION {in.subs[m] : m \in in.ms}
AllTPs(in) == {<<t, p>> : t \in Topics(in), p \in 0..20} \cap {tp \in (Topics(in) \X (0..20)) : tp[2] \in in.parts[tp[1]]}
TPLess(a, b) == a[1] < b[1] \/ (a[1] = b[1] /\ a[2] < b[2])

RoundRobin(in) ==
    LET tps == SetToSortSeq(AllTPs(in), TPLess)
        mseq == SetToSortSeq(in.ms, <)
        n == Len(mseq)
        RECURSIVE Go(_, _, _)
        Go(i, c, acc) ==
            IF i > Len(tps) THEN acc
            ELSE LET t == tps[i][1]
                     d == CHOOSE k \in 0..(n - 1) :
                            /\ t \in in.subs[mseq[((c - 1 + k) % n) + 1]]
                            /\ \A j \in 0..(k - 1) : t \notin in.subs[mseq[((c - 1 + j) % n) + 1]]
                     m == mseq[((c - 1 + d) % n) + 1]
                 IN Go(i + 1, ((c + d) % n) + 1, [acc EXCEPT ![m] = @ \cup {tps[i]}])
    IN Go(1, 1, [m \in in.ms |-> {}])

-----------------------------------------------------------------------------
(* Property clauses: predicates on an input and a result *)
ExactlyOnce(in, res) ==
    /\ \A tp \in AllTPs(in) : Cardinality({m \in in.ms : tp \in res[m]}) = 1
    /\ \A m \in in.ms : res[m] \subseteq AllTPs(in)
OnlySubscribed(in, res) == \A m \in in.ms : \A tp \in res[m] : tp[1] \in in.subs[m]
Identical(in) == \A a, b \in in.ms : in.subs[a] = in.subs[b]
Balanced(in, res) ==
    Identical(in) => \A a, b \in in.ms : Cardinality(res[a]) <= Cardinality(res[b]) + 1

-----------------------------------------------------------------------------
(* Design check: one state per input *)
CONSTANTS Members, TopicSet, PartSets
VARIABLE in
Inputs ==
    {[ms |-> M, subs |-> sb, parts |-> pt] :
        M \in (SUBSET Members) \ {{}}, sb \in [Members -> SUBSET TopicSet], pt \in [TopicSet -> PartSets]}
Normal(i) == /\ \A m \in Members \ i.ms : i.subs[m] = {}       \* canonical: non-members subscribe to nothing
             /\ \E m \in i.ms : i.subs[m] # {}
Init == in \in {i \in Inputs : Normal(i)}
Next == UNCHANGED in
C15_exactly_once == ExactlyOnce(in, RoundRobin(in))
C15_only_subscribed == OnlySubscribed(in, RoundRobin(in))
C15_balanced == Balanced(in, RoundRobin(in))
Emit == PrintT(<<"VEC", in.ms, [m \in in.ms |-> in.subs[m]], in.parts, RoundRobin(in)>>)
=============================================================================
