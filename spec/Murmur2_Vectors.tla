--------------------------- MODULE Murmur2_Vectors ---------------------------
(* TLC as test-vector generator: one initial state per key; the hash and the     *)
(* partition picked from each list are computed by the specification and printed. *)
EXTENDS Murmur2, TLC
CONSTANTS Alphabet, MaxLen, Lists
VARIABLE key
RECURSIVE SeqsUpTo(_)
SeqsUpTo(n) == IF n = 0 THEN {<<>>} ELSE
    LET prev == SeqsUpTo(n - 1) IN prev \cup {Append(q, b) : q \in {p \in prev : Len(p) = n - 1}, b \in Alphabet}
Keys == SeqsUpTo(MaxLen)
Init == key \in Keys
Next == UNCHANGED key
Emit == PrintT(<<"VEC", key, Hash(key), [L \in Lists |-> Pick(key, L)]>>)
\* in range for every key and list (checked by TLC on the specification's function)
InRange == \A L \in Lists : Pick(key, L) \in {L[i] : i \in DOMAIN L}
=============================================================================
