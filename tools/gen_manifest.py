#!/usr/bin/env python3
"""Regenerate /verif/MANIFEST.json from the table below (one source of truth) and validate it."""
import json, os, sys
HERE = os.path.dirname(os.path.dirname(os.path.abspath(__file__)))

TECH = "TLA+ design model checked exhaustively by TLC; TLC-generated behaviours replayed on the real objects; recorded traces validated by TLC against the same specification"
CLAIMED = {
 "C06": dict(
   text="BrokerConn.tla (request table, reconnect loop, re-entrant callbacks) and Framing.tla (chunked reassembly, oversize header, bootstrap protocol) are model-checked exhaustively for 3 ids/2 connections/2 failures; an edge cover of the model's state graph, TLC -simulate behaviours and seeded random schedules are executed on the real _KafkaBrokerClient / KafkaProtocol / KafkaBootstrapProtocol over a simulated transport and every recorded step is re-validated by TLC (exactly-once, own-id, foreign-frame inertness, reassembly, length limit).",
   ref="DESIGN.md 6.1, 6.2, 7 (C06)",
   note="Trusted: TLC, the simulated transport (stops reading after loseConnection like Twisted TCP), Twisted's Deferred. Bounds: 3 ids + 1 foreign in the exhaustive model; larger request sets only sampled (seeded)."),
 "C10": dict(
   text="BrokerConn.tla is model-checked for re-send set/order, no re-send of completed requests, once per connection, reconnect-iff-pending, backoff policy and close, with connection loss enabled in every state (incl. mid-frame, connecting, backoff); the same behaviours and seeded random fault schedules are executed on the real _KafkaBrokerClient and validated step by step by TLC.",
   ref="DESIGN.md 6.1, 7 (C10)",
   note="Trusted: TLC, simulated network/clock. The retry policy is an explicit table (0.1, 0.2, 0.4 s) rather than Twisted's jittered default."),
 "C18": dict(
   text="Murmur2.tla transcribes the Java client's murmur2 in 16-bit limb arithmetic and is pinned to the six vectors of Apache Kafka's UtilsTest by ASSUMEs; TLC enumerates every key over a 5-byte alphabet up to length 5 (quick) / 6 (thorough) and emits hash and partition picks that are compared with pure_murmur2 and HashedPartitioner for bytes/bytearray/str forms; Partitioner.tla model-checks round-robin fairness over all histories with list changes from every start, its behaviours are replayed on the real objects (random start forced to the model's), and recorded call histories of long-lived partitioner objects are validated by TLC.",
   ref="DESIGN.md 6.8, 7 (C18)",
   note="Trusted: TLC, the six Java-produced anchor values. Not covered: the optional C extension murmurhash2 (not installed); uniformity of the random start (statistical)."),
 "C15": dict(
   text="Assignment.tla states the four clauses (every partition exactly once, only to subscribers, balanced for identical subscriptions, independent of member order) independently of the algorithm, TLC checks them on the documented round-robin algorithm for every input with <=3 members, 2 topics and 5 partition sets (exhaustive on that domain), every such input is executed on the real generate_assignments for every order of the member list and each member's share is decoded with the real decode_assignment (and an independent parse of the encoded bytes), and TLC re-validates the recorded outputs against the same clauses; larger seeded inputs go the same way.",
   ref="DESIGN.md 6.8, 7 (C15)",
   note="Trusted: TLC. An implementation that satisfies the clauses with another algorithm is accepted (reported as drift). Larger member/topic counts are sampled only."),
}
PENDING_REASON = "check not built yet in this round (framework under construction; see DESIGN.md section 12 for the order)"

def main():
    props = [json.loads(l) for l in open(os.path.join(HERE, "properties.jsonl"))]
    checks, na = [], []
    for p in props:
        pid = p["id"]
        c = CLAIMED.get(pid)
        if not c:
            na.append({"property_id": pid, "reason": NA.get(pid, PENDING_REASON)})
            continue
        checks.append({
            "property_id": pid,
            "quick_cmd": "./check %s --tier quick" % pid,
            "thorough_cmd": "./check %s --tier thorough" % pid,
            "evidence_file": "/verif/evidence/%s.json" % pid,
            "replay_cmd_template": "./check %s --replay {path}" % pid,
            "engine": "tlc+harness",
            "level_claimed": {"category": "model_checking", "text": c["text"], "design_ref": c["ref"]},
            "level_note": c["note"],
            "technique": c.get("technique", TECH),
        })
    m = {
        "version": 1,
        "setup_cmd": "python3 /verif/setup.py",
        "hooks": {
            "guard": "none (no source hooks: the harness owns the clock, the endpoint factory and the transports, so every reactor event is delimited from outside)",
            "enable": "nothing to enable; checks import afkak from /repo's working tree via /venv (editable install)",
            "baseline_off_cmd": "cd /repo && /venv/bin/python -m pytest -ra -q -p no:cacheprovider --timeout=900 --continue-on-collection-errors",
            "source_commits": [],
            "add_only": True,
        },
        "engines": [{"name": "tlc+harness", "path": "/verif/check",
                     "serves_properties": [c["property_id"] for c in checks],
                     "kind_free_text": "TLA+ specifications in /verif/spec checked by TLC (design, exhaustive), used as schedule generator (state-graph edge cover, -simulate) and as trace validator for executions of the real code recorded by /verif/harness"}],
        "checks": checks,
        "not_applicable": na,
        "notes": "Exit 0/1/2 = held / violation (VIOLATION lines with replay files) / machinery failure. known_findings.json lists recorded genuine defects; seeded/ holds independently written breaking changes used to test the checks.",
    }
    json.dump(m, open(os.path.join(HERE, "MANIFEST.json"), "w"), indent=1)
    try:
        import jsonschema
        jsonschema.validate(m, json.load(open("/root/.vp/MANIFEST.schema.json")))
        print("MANIFEST.json valid: %d checks, %d not_applicable" % (len(checks), len(na)))
    except ImportError:
        print("MANIFEST.json written (jsonschema unavailable here)")

NA = {}
if __name__ == "__main__":
    main()
