#!/usr/bin/env python3
"""Regenerate /verif/MANIFEST.json from the table below (one source of truth) and validate it."""
import json, os, sys
HERE = os.path.dirname(os.path.dirname(os.path.abspath(__file__)))

TECH = "TLA+ design model checked exhaustively by TLC; TLC-generated behaviours replayed on the real objects; recorded traces validated by TLC against the same specification"
CLAIMED = {
 "C06": dict(
   text="BrokerConn.tla (request table, reconnect loop, re-entrant callbacks) and Framing.tla (chunked reassembly, oversize header, bootstrap protocol) are model-checked exhaustively for 3 ids/2 connections/2 failures; an edge cover of the model's state graph, TLC -simulate behaviours and seeded random schedules are executed on the real _KafkaBrokerClient / KafkaProtocol / KafkaBootstrapProtocol over a simulated transport and every recorded step is re-validated by TLC (exactly-once, own-id, foreign-frame inertness, reassembly, length limit).",
   ref="DESIGN.md 6.1, 6.2, 7 (C06)",
   note="Trusted: TLC, the simulated transport (stops reading after loseConnection like Twisted TCP), Twisted's Deferred. Bounds: 3 ids + 1 foreign in the exhaustive model; larger request sets only sampled (seeded)."),
 "C10": dict(
   text="BrokerConn.tla is model-checked for re-send set/order, no re-send of completed requests, once per connection, reconnect-iff-pending, backoff policy and close, with connection loss enabled in every state (incl. mid-frame, connecting, backoff), connection attempts that complete later, synchronously inside connect(), or from inside the cancellation by close(); the same behaviours and seeded random fault schedules are executed on the real _KafkaBrokerClient and validated step by step by TLC.",
   ref="DESIGN.md 6.1, 7 (C10)",
   note="Trusted: TLC, simulated network/clock. The retry policy is an explicit table (0.1, 0.2, 0.4 s) rather than Twisted's jittered default."),
 "C18": dict(
   text="Murmur2.tla transcribes the Java client's murmur2 in 16-bit limb arithmetic and is pinned to the six vectors of Apache Kafka's UtilsTest by ASSUMEs; TLC enumerates every key over a 5-byte alphabet up to length 5 (quick) / 6 (thorough) and emits hash and partition picks that are compared with pure_murmur2 and HashedPartitioner for bytes/bytearray/str forms; Partitioner.tla model-checks round-robin fairness over all histories with list changes from every start, its behaviours are replayed on the real objects (random start forced to the model's), and recorded call histories of long-lived partitioner objects are validated by TLC.",
   ref="DESIGN.md 6.8, 7 (C18)",
   note="Trusted: TLC, the six Java-produced anchor values. Round-robin fairness for runs of ANY length is additionally proved on the design by Apalache (RoundRobinInd.tla: inductive invariant, initiation / consecution / invariant => fairness, re-run by every check). Not covered: the optional C extension murmurhash2 (not installed); uniformity of the random start (statistical)."),
 "C15": dict(
   text="Assignment.tla states the four clauses (every partition exactly once, only to subscribers, balanced for identical subscriptions, independent of member order) independently of the algorithm, TLC checks them on the documented round-robin algorithm for every input with <=3 members, 2 topics and 5 partition sets (exhaustive on that domain), every such input is executed on the real generate_assignments for every order of the member list and each member's share is decoded with the real decode_assignment (and an independent parse of the encoded bytes), and TLC re-validates the recorded outputs against the same clauses; larger seeded inputs go the same way.",
   ref="DESIGN.md 6.8, 7 (C15)",
   note="Trusted: TLC. An implementation that satisfies the clauses with another algorithm is accepted (reported as drift). Larger member/topic counts are sampled only."),
 "C04": dict(
   text="Wire.tla is an independent TLA+ encoder of the protocol subset (request header, 14 request layouts, message formats 0/1 with CRC32.tla); TLC enumerates abstract requests (boundary integers, empty/non-ASCII strings, null/empty bytes, 0-2 topics x 0-2 partitions x 0-2 messages, both magics) as one state each, checks header-version/message-format consistency on them and emits the bytes; afkak's encoders are run on every expressible vector and must give the same bytes, or bytes that an independent parser (itself checked against the same vectors) maps to the same request up to array order.",
   ref="DESIGN.md 6.9, 7 (C04)",
   note="Trusted: TLC; the grammar as transcribed in Wire.tla from the protocol guide. Version negotiation (last sentence): Negotiation.tla enumerates, one state per scenario, what the broker does with ApiVersions (version tables with maxima 2..11, an error answer, no answer at all), which calls follow (produce, fetch, both orders, two fetches) and whether discovery is enabled, with the invariant that the expected header version is advertised and implemented and 0 when discovery fails; every scenario is run on the real KafkaClient over the simulated cluster: the version in each produce/fetch header, that the body parses under that version's layout (independent parser), that the calls return the broker's data (matching decoder) and the number of discovery requests. Large (>64 kB) values are exercised only in end-to-end runs.",
   technique="TLA+ specification of the wire grammar evaluated by TLC as test-vector generator (one state per abstract request) with invariants on the vectors; implementation encoders compared byte-for-byte"),
 "C05": dict(
   text="TLC computes, from Wire.tla, the bytes of well-formed responses of all supported APIs/versions (every error code class, boundary integers, null/empty strings and bytes, 0-2 topics/partitions/members) and of plain message sets in both formats, and from MessageSet.tla the logical content (absolute offsets) of compressed and nested wrappers; afkak's decoders are run on all of them and must return exactly the encoded values; afkak's own encode-then-decode must be the identity and give the grammar's bytes.",
   ref="DESIGN.md 6.9, 7 (C05)",
   note="Trusted: TLC, Wire.tla/MessageSet.tla. Deflate is outside the specification (wrappers are compressed by Python's gzip); snappy is not installed.",
   technique="TLA+ specification of the wire grammar and of message-set offset rules evaluated by TLC as test-vector generator; implementation decoders compared with the abstract values"),
 "C12": dict(
   text="CRC32.tla is the checksum oracle: every single-bit flip, bursts of width 2-12 (all or sampled interiors), wide random bursts and, for 32-bit windows, the 32 bursts whose CRC syndrome is a single checksum bit (solved over GF(2)) are applied to the checksummed bytes of messages from the TLC vectors - at top level and, for a sample, as an inner message of a gzip wrapper whose own checksum is valid -, the real decoder's outcome is recorded and TLC (CrcJudge.tla) decides for each whether a checksum error was mandatory; every truncation point of every vector message set is decoded and compared with the count of complete entries MessageSet.tla computes; every length/count field of every response vector and every entry size is replaced by hostile values and decoding must terminate within time/memory linear in the input.",
   ref="DESIGN.md 6.9, 7 (C12), 8",
   note="Trusted: TLC, CRC32.tla (pinned to the standard check value). The third sentence is covered only for the grammar-derived hostile-length family, not for arbitrary byte strings; the resource bound is measured by the harness, not by the model. Buffer enlargement by the consumer is decided by the consumer-family check (called from here once built).",
   technique="TLA+ CRC-32 and message-set specification: TLC judges recorded decoder outcomes of mutated messages (trace validation) and computes truncation oracles; hostile-length vectors derived from the specification's field segmentation"),
 "C07": dict(
   text="ClientRouting.tla models KafkaClient at the level of operations and broker requests (metadata cache, leader/coordinator routing, the broker-agnostic request machine over connected, known and bootstrap hosts, per-request timers, pruning, close) and is model-checked exhaustively for a bounded cluster; an edge cover of its state graph, TLC -simulate behaviours, TLC-found shortest behaviours into goal states and seeded random schedules are executed on the real KafkaClient (real broker clients and protocols) over a simulated network and an independently coded simulated cluster, and TLC re-validates each recorded step: which broker receives which payloads, one request per broker, result order, failed-payload accounting, the order in which hosts are tried.",
   ref="DESIGN.md 6.3, 7 (C07)",
   note="Trusted: TLC, the simulated cluster (its codec is cross-checked against Wire.tla). Connection management is abstracted (reachable brokers connect at once); 3 brokers, 2 bootstrap hosts, 3 partitions, <=2 concurrent operations in the exhaustive model."),
 "C08": dict(
   text="Same specification and executions as C07, judged on the clauses of C08: after every metadata answer the public accessors (topic_partitions, topics_to_brokers, topic_errors, coordinator) must equal the model's cache, uncovered topics untouched; clients of brokers missing from a full refresh are closed; error codes 3/6, coordinator errors and failed payloads invalidate exactly what the model says; every reconnect attempt goes to the address of the latest metadata (re-addressed brokers, including port-only changes). For the resumption sentence the real Consumer is run over this client on the simulated cluster (leader moves, broker restarts, error answers) and Consumer.tla decides what it must do with every failed fetch (retry after the documented backoff, within its attempt limit).",
   ref="DESIGN.md 6.3, 7 (C08)",
   note="Trusted as C07. The liveness sentence (producing/consuming resume after faults cease) is exercised on finite executions only: random schedules end with faults ceased and the operations must complete as the model predicts; no temporal property is model-checked."),
 "C11": dict(
   text="ClientRouting.tla with explicit request-timer epochs, run with disconnect_on_timeout off and on: every request armed before a clock advance has completed (timed out) after it, a late reply completes nothing, with disconnect-on-timeout the connection is dropped and the remaining requests are re-sent; checked exhaustively on the model and on every recorded execution of the real client (incl. connections that never establish, acks=0 requests, bootstrap requests).",
   ref="DESIGN.md 6.3, 7 (C11)",
   note="Time advances only in Timeout events; the timer-release clause is observed through pending delayed calls of the virtual clock. The value of the bound (client timeout, or the caller's minimum as a floor - group joins ask for 35 s) and the life of a request's timer (released when the request is answered, times out or is cancelled by its caller, without disturbing other requests on the connection) are checked on the real client with Timeouts.tla as scenario/expectation generator (36 scenarios)."),
 "C20": dict(
   text="ClientRouting.tla with Close enabled in every state (bootstrapping, connecting, requests in flight on several brokers, pruned clients whose connections are still closing) followed by explicit connection-gone events in every order: pending operations fail in the close event, new ones fail, nothing is issued or written afterwards, the cache is empty, the close Deferred fires exactly when the last connection has gone. Goal-directed TLC behaviours (close after two prunes, close during bootstrap, close with queued requests) are replayed on the real client; the broker-client side of close (incl. callbacks that cancel sibling requests re-entrantly) is checked with BrokerConn.tla in the same run.",
   ref="DESIGN.md 6.1, 6.3, 7 (C20)",
   note="Bootstrap connections are reaped by the auto-pilot as soon as the client asks; connections of closed broker clients are reaped by explicit events."),
 "C01": dict(
   text="Producer.tla (batching, partition lookup with metadata waits, produce attempts, per-payload outcomes, retries, cancellation, stop) is model-checked exhaustively per configuration (acks 0/1/-1, thresholds N/B/T); its behaviours are replayed on the real Producer over a scripted client, and seeded random executions of the real Producer over the real KafkaClient, broker clients and simulated cluster are recorded at producer level; TLC validates every step: which sends fire, success only from an acknowledged payload, exactly once, failure on every other outcome, and (full stack) that a successful send's messages are in the named partition's log, contiguous and in order, appended by its leader.",
   ref="DESIGN.md 6.5, 7 (C01)",
   note="Trusted: TLC, simulated cluster logs as ground truth. snappy is not installed (codec none only in this family; gzip is covered by C05)."),
 "C09": dict(
   text="Same specification and executions as C01, judged on C09's clauses: per-partition send order in every payload, a send in exactly one payload per attempt, no dispatch while a batch is unresolved, retries contain exactly the failed payloads, produce requests per batch <= max attempts, retry delays equal interval*1.20205^k from an independently computed table and restart after the batch resolves, pending producer timers as predicted.",
   ref="DESIGN.md 6.5, 7 (C09)",
   note="Delays compared with 2 microseconds tolerance."),
 "C19": dict(
   text="Same specification and executions as C01, judged on C19's clauses: dispatch exactly when a threshold is met or the timer ticks with nothing in flight, thresholds met during a batch take effect when it resolves, early cancellation removes the messages from the wire and from the accounting, late cancellation only detaches, stop fails everything outstanding, transmits nothing (no produce, no metadata request) and leaves no producer timer.",
   ref="DESIGN.md 6.5, 7 (C19)",
   note="Sending to a stopped producer is outside the documented use and is not scheduled."),
 "C02": dict(
   text="Consumer.tla models the single-partition consumer at the level of application calls, client replies (fetch windows drawn from a log with gaps: the next 0-3 entries, optionally preceded by an already consumed entry as a compressed batch returns it, 'too small', or ending in an entry that fails to decode), processor completions, timers; TLC checks exhaustively (5 configurations, bounded depth) that offsets reach the processor strictly increasing, without omission relative to the log from the resolved position, never overlapping; an edge cover of the state graph, TLC -simulate behaviours and seeded random schedules are executed on the real Consumer over a scripted client and TLC re-validates every recorded step (processor invocations, fetch offsets) and the order/no-gap clauses on the observed history.",
   ref="DESIGN.md 6.6, 7 (C02)",
   note="Trusted: TLC, the simulated cluster's stored log as ground truth. Two bindings: (a) the consumer over a scripted client, driven by TLC-generated and random schedules; (b) full stack: the real Consumer over the real KafkaClient, broker clients, protocols and codec on the simulated cluster whose log holds gaps, gzip wrappers in both message formats at non-zero offsets and a message larger than the first fetch buffer, fetch v0 and (with version discovery) v2, under random answers/errors/drops/leader and coordinator moves; consumer-level events are derived from the completion of the client's request methods and validated against the same specification, and every delivered message's key/value/offset is compared with the stored one. A reply that fails to decode while parked behind processing is not scheduled. Progress (every message of the log is eventually handed over once faults cease) is a temporal property checked on the design only: Consumer_Live.tla, three small configurations, complete state spaces under weak fairness of every fault-free event kind."),
 "C03": dict(
   text="Same specification and executions as C02, judged on C03's clauses: every commit request carries the last processed offset at the moment it is issued, every delivered message up to it was processed successfully, one commit request outstanding at a time, the recorded last-committed offset changes only to a value the coordinator acknowledged (commit accepted) or reported (offset fetch), start from the committed position resumes at committed+1; processor failures, manual/count/time-triggered commits, their retries and stop/shutdown at every point.",
   ref="DESIGN.md 6.6, 7 (C03)",
   note="Process death is an application restart at an event boundary followed by start(OFFSET_COMMITTED) with the coordinator's stored value; the broker-side store is the scripted client's in this family."),
 "C13": dict(
   text="Same specification and executions as C02, judged on C13's clauses: stop and shutdown are enabled in every state (resolving offsets, fetching, reply parked, processing, retry backoff, manual/automatic commit in flight or in backoff), followed by every ordering of the outstanding replies and every commit outcome; after stop nothing is invoked, requested or left on the clock, the start Deferred fires exactly once with the predicted value, shutdown waits, commits and stops, restart works.",
   ref="DESIGN.md 6.6, 7 (C13)",
   note="stop() during a pending shutdown() and calls on a stopped consumer other than start/shutdown are not scheduled. Stop from inside the processor is exercised by the synchronous-processor configuration only through the stop-inside-block rule of the model."),
 "C14": dict(
   text="Same specification and executions as C02, judged on C14's clauses: retry delays come from an independently computed table (init*1.20205^k capped at the maximum, 2 microseconds tolerance), restart after a success, attempt limit (2, 3, unlimited), the three reset policies with out-of-range arriving at any point, buffer growth along an independently computed size sequence (x16 to 1 MiB, doubling above: 1.5->3->6->8 MiB) re-fetching the same offset, failing only at the maximum.",
   ref="DESIGN.md 6.6, 7 (C14)",
   note="Delays and sizes are compared exactly against tables computed by the harness from the documented rule, not from the implementation. 'Otherwise retrying continues indefinitely' is additionally a temporal property on the design (Consumer_Live.tla: once faults cease the consumer catches up with the log)."),
 "C16": dict(
   text="Group.tla models one group member (afkak's Coordinator / ConsumerGroup): coordinator lookup, topic metadata load, graceful shutdown of the previous generation's consumers (failing through the Deferred or, in a second configuration, by raising from shutdown()), join, the leader's partition lookup, sync, start of the assigned consumers with generation and member id, heartbeat looper, delayed rejoins, the error table of rejoin_after_error, consumer errors, stop (consumers first, then leave). TLC checks exhaustively within a depth bound that a join request goes out only when no consumer of the previous generation is left, consumers are started only from a sync answer with the current generation/member id and from the committed position, eviction (illegal generation, unknown member, timeout) stops the consumers in the same event, one join/sync exchange at a time, heartbeats only while stable, nothing but the leave request after stop. An edge cover of the state graph, TLC -simulate behaviours and seeded random schedules are executed on the real ConsumerGroup over a scripted client and scripted partition consumers, and TLC re-validates every recorded step.",
   ref="DESIGN.md 0.9, 6.7, 7 (C16)",
   note="Trusted: TLC. The client and the partition consumers are the member's environment in this family (scripted): that commits carry the generation and member id is checked at the consumer's constructor arguments; the Consumer's own commit/stop contract is C03/C13's subject. Other members exist only through the coordinator's answers. A member is not restarted after stop. End to end: two real members (real KafkaClients, real Consumers) on the simulated cluster with a simulated group coordinator that holds joins until the scheduler completes the rebalance; after every scheduled event TLC evaluates GroupFence.tla on the recorded snapshot (consumer identity = member's generation/id, exclusivity within a generation, assignment, join only without consumers, heartbeat and commit identity, committed = processed after a successful graceful shutdown)."),
 "C17": dict(
   text="Same specification and executions as C16, judged on C17's clauses: after every event of a started, not stopping member there is a request of the join protocol outstanding, or consumers being shut down for a join, or a delayed rejoin on the clock, or the heartbeat looper running with no rejoin wanted (checked on the model state and, independently, on the observed outstanding calls and timers of the real object); every error kind on every request leads to the rejoin delay of the documented table (retry / initial / fatal backoff); errors that are not Kafka errors surface on the start Deferred.",
   ref="DESIGN.md 0.9, 6.7, 7 (C17)",
   note="Liveness: the state invariant 'never idle' on the bounded design model and on every recorded execution, plus the temporal property C17_settles of Group_Live.tla (same Step, histories dropped, generations recycled, complete state space under the constraint of at most 3 pending rejoin timers): (<>[] only fault-free steps) => <>[] (stable member, or stopped / failed), under weak fairness of every kind of fault-free event; it holds for the design and is violated, as it must be, when the recorded finding is switched on. Known finding (known_findings.json F-G1-*): a non-Kafka failure of the coordinator lookup, the join's metadata load or the leader's partition lookup is swallowed and wedges the member; the pinned tests rely on that swallowing. The leader's partition lookup (KafkaClient._load_topic_partitions, its own retry loop) is checked on the real client over the simulated cluster with PartsLookup.tla as scenario/expectation generator: every sequence (length <= 3, thorough 4) of metadata answers showing either requested topic in error or not; the lookup must ask again after each bad answer and complete with the partitions of the first good one."),
}
PENDING_REASON = "check not built yet in this round (framework under construction; see DESIGN.md section 12 for the order)"

def main():
    props = [json.loads(l) for l in open(os.path.join(HERE, "properties.jsonl"))]
    checks, na = [], []
    for p in props:
        pid = p["id"]
        c = CLAIMED.get(pid)
        if not c:
            na.append({"property_id": pid, "reason": NA.get(pid, PENDING_REASON)})
            continue
        checks.append({
            "property_id": pid,
            "quick_cmd": "./check %s --tier quick" % pid,
            "thorough_cmd": "./check %s --tier thorough" % pid,
            "evidence_file": "/verif/evidence/%s.json" % pid,
            "replay_cmd_template": "./check %s --replay {path}" % pid,
            "engine": "tlc+harness",
            "level_claimed": {"category": "model_checking", "text": c["text"], "design_ref": c["ref"]},
            "level_note": c["note"],
            "technique": c.get("technique", TECH),
        })
    m = {
        "version": 1,
        "setup_cmd": "python3 /verif/setup.py",
        "hooks": {
            "guard": "none (no source hooks: the harness owns the clock, the endpoint factory and the transports, so every reactor event is delimited from outside)",
            "enable": "nothing to enable; checks import afkak from /repo's working tree via /venv (editable install)",
            "baseline_off_cmd": "cd /repo && /venv/bin/python -m pytest -ra -q -p no:cacheprovider --timeout=900 --continue-on-collection-errors",
            "source_commits": [],
            "add_only": True,
        },
        "engines": [{"name": "tlc+harness", "path": "/verif/check",
                     "serves_properties": [c["property_id"] for c in checks],
                     "kind_free_text": "TLA+ specifications in /verif/spec checked by TLC (design, exhaustive), used as schedule generator (state-graph edge cover, -simulate) and as trace validator for executions of the real code recorded by /verif/harness"}],
        "checks": checks,
        "not_applicable": na,
        "notes": "Exit 0/1/2 = held / violation (VIOLATION lines with replay files) / machinery failure. known_findings.json lists recorded genuine defects; seeded/ holds independently written breaking changes used to test the checks. A TLC run that ends in an error of the run itself (not a verdict) is repeated, once unchanged and once with one worker, before it counts as a machinery failure (TLC-RETRY lines, coverage.tlc_runs_repeated in the evidence); verdicts are never repeated.",
    }
    json.dump(m, open(os.path.join(HERE, "MANIFEST.json"), "w"), indent=1)
    try:
        import jsonschema
        jsonschema.validate(m, json.load(open("/root/.vp/MANIFEST.schema.json")))
        print("MANIFEST.json valid: %d checks, %d not_applicable" % (len(checks), len(na)))
    except ImportError:
        print("MANIFEST.json written (jsonschema unavailable here)")

NA = {}
if __name__ == "__main__":
    main()
