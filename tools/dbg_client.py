#!/venv/bin/python
"""dbg_client.py <replay.json>: re-validate the recorded trace of a replay file and show, for the first
mismatching step, what the model predicted next to what was observed."""
import json, os, re, sys
sys.path.insert(0, "/verif/harness")
from vh import tlc, tlaval, check_client
rp = json.load(open(sys.argv[1]))
tr = rp["trace"]
dot = "dot=True" in rp["family"]
wd = tlc.workdir("dbg")
sub = os.path.join(wd, "x"); os.makedirs(sub)
tf = os.path.join(sub, "t.json"); json.dump([tr], open(tf, "w"))
tla, cfg = tlc.write_mc(sub, "TV", "ClientRouting_Trace", check_client.DEFS, check_client.trace_cfg(8, dot))
rc, text, wall = tlc.run(tla, cfg, sub, workers=1, env={"TRACE_FILE": tf, "TRACE_DEBUG": "1"})
m = re.search(r'<<\s*"MISMATCH"', text)
if not m:
    print("no mismatch; rc", rc); print(text[-1500:]); sys.exit()
tup = tlc._balanced_after(text, m.start())
v = tlaval.parse(tup)
l = v[2]
for i, r in enumerate(tr[:l], 1):
    print(i, json.dumps(r["e"]))
    if i >= l - 2: print("    obs:", json.dumps(r["o"]))
print("MODEL at step", l, ":", json.dumps(tlaval.to_json(v[3])), "\n   cache:", json.dumps(tlaval.to_json(v[4])))
print("   pre-state inbox:", tlaval.to_json(v[5]), "\n   reqs (id,op,kind,tgt,live,sent):", tlaval.to_json(v[6]), "\n   ops:", tlaval.to_json(v[7]))
r = re.search(r'<<\s*"RESULT".*', text)
print(text[r.start():r.start()+300] if r else "")
