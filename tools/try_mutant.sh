#!/bin/sh
# try_mutant.sh <seeded/ID> [prop] [tier]: apply the seeded change to /repo, run the property's check, undo.
D=/verif/seeded/$1
P=${2:-$(python3 -c "import json;print(json.load(open('$D/meta.json'))['property'])")}
T=${3:-quick}
cd /repo && git diff --quiet || { echo "/repo not clean"; exit 2; }
git -C /repo apply "$D/patch.diff" || exit 2
cd /verif && ./check $P --tier $T > /tmp/try-$1-$P.log 2>&1; rc=$?
git -C /repo checkout -- .
echo "$1 on $P ($T): exit=$rc"; grep -E "^(VIOLATION|MACHINERY|KNOWN|  clause)" /tmp/try-$1-$P.log | head -8; tail -1 /tmp/try-$1-$P.log
