"""Self-test of tlc.run's repetition policy: an error of the specification recurs in every attempt and stays a machinery
failure; a verdict is never repeated; an error that does not recur is absorbed and recorded.   /venv/bin/python tools/selftest_tlc_retry.py"""
import sys
sys.path.insert(0, __import__("os").path.join(__import__("os").path.dirname(__import__("os").path.dirname(__import__("os").path.abspath(__file__))), "harness"))
from vh import tlc
wd = tlc.workdir("retry-selftest")
# (1) deterministic evaluation error: every attempt fails, the caller sees a non-verdict status
tla, cfg = tlc.write_mc(wd, "Bad", "Naturals", ["VARIABLE x", "Init == x = 0", "Next == x' = IF x = 2 THEN x + \"a\" ELSE x + 1", "Spec == Init /\\ [][Next]_x"], ["SPECIFICATION Spec"])
rc, text, wall = tlc.run(tla, cfg, wd, workers=4)
print("deterministic error: rc", rc, "attempts", len(tlc.RETRIES)); assert rc not in tlc._VERDICT_RC and len(tlc.RETRIES) == 3 and tlc.RETRIES[-1]["workers"] == 1
# (2) invariant violation: a verdict, not repeated
del tlc.RETRIES[:]
tla, cfg = tlc.write_mc(wd, "Viol", "Naturals", ["VARIABLE x", "Init == x = 0", "Next == x' = (x + 1) % 4", "Spec == Init /\\ [][Next]_x", "Inv == x < 3"], ["SPECIFICATION Spec", "INVARIANT Inv"])
rc, text, wall = tlc.run(tla, cfg, wd, workers=4)
print("violation: rc", rc, "attempts", len(tlc.RETRIES)); assert rc == 12 and not tlc.RETRIES
# (3) an error that does not recur
orig = tlc._run_once
calls = []
def flaky(*a):
    calls.append(a[3])
    if len(calls) == 1:
        return 255, "Error: TLC threw an unexpected exception (injected)", 0.1
    return orig(*a)
tlc._run_once = flaky
tla, cfg = tlc.write_mc(wd, "Ok", "Naturals", ["VARIABLE x", "Init == x = 0", "Next == x' = (x + 1) % 4", "Spec == Init /\\ [][Next]_x"], ["SPECIFICATION Spec"])
rc, text, wall = tlc.run(tla, cfg, wd, workers=4)
print("flaky: rc", rc, "workers per attempt", calls, "retries", len(tlc.RETRIES)); assert rc == 0 and calls == [4, 4] and len(tlc.RETRIES) == 1
print("selftest_tlc_retry: ok")
