#!/bin/sh
# verify_mutant.sh <src-dir-with-patch.diff-and-demo.py> : confirm, in a throw-away worktree,
# that the change passes the pinned suite, and that its demonstration fails with it and passes without.
set -u
SRC=$1
WT=$(mktemp -d /tmp/vm.XXXXXX)
git -C /repo worktree add -q --detach "$WT" HEAD || exit 2
cd "$WT"
export PYTHONPATH="$WT"
R=""
PYTHONPATH="$WT" /venv/bin/python "$SRC/demo.py" >/dev/null 2>&1; R="$R clean_demo_rc=$?"
git apply "$SRC/patch.diff" || { echo "patch does not apply"; git -C /repo worktree remove --force "$WT"; exit 2; }
PYTHONPATH="$WT" /venv/bin/python "$SRC/demo.py" >/dev/null 2>&1; R="$R patched_demo_rc=$?"
T=$(PYTHONPATH="$WT" /venv/bin/python -m pytest -q -p no:cacheprovider --timeout=900 afkak/test 2>&1 | tail -1)
FAILS=$(PYTHONPATH="$WT" /venv/bin/python -m pytest -q -p no:cacheprovider --timeout=900 afkak/test 2>&1 | grep -E '^(FAILED|ERROR)' | tr '\n' ' ')
cd /
git -C /repo worktree remove --force "$WT"
echo "$SRC:$R tests: $T | $FAILS"
