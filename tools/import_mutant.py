#!/usr/bin/env python3
"""import_mutant.py <prop> <k> <needs text> : copy /tmp/wt/out-<prop>/m<k> to /verif/seeded/<prop>-m<k>
after verify_mutant.sh confirmed it (suite unchanged, demo fails with / passes without)."""
import json, os, shutil, subprocess, sys
prop, k, needs = sys.argv[1], sys.argv[2], sys.argv[3]
kd = sys.argv[4] if len(sys.argv) > 4 else k          # (later batches are stored under the next free numbers)
src = "/tmp/wt/out-%s/m%s" % (prop, k)
dst = "/verif/seeded/%s-m%s" % (prop, kd)
os.makedirs(dst, exist_ok=True)
for f in ("patch.diff", "demo.py", "notes.md"):
    shutil.copy(os.path.join(src, f), os.path.join(dst, f))
out = subprocess.run(["/verif/tools/verify_mutant.sh", dst], capture_output=True, text=True).stdout.strip().splitlines()[-1]
ok = "clean_demo_rc=0" in out and "patched_demo_rc=0" not in out and "1 failed, 310 passed" in out
meta = {
    "property": prop,
    "origin": "independent sub-agent given only the property text and a scratch worktree",
    "needs_to_manifest": needs,
    "confirmed": {
        "cmd": "tools/verify_mutant.sh seeded/%s-m%s" % (prop, kd),
        "result": out.split(": ", 1)[-1],
        "suite_unchanged": "1 failed, 310 passed" in out,
        "demo_fails_with_patch_passes_without": "clean_demo_rc=0" in out and "patched_demo_rc=0" not in out,
    },
    "detected_by": None,
}
json.dump(meta, open(os.path.join(dst, "meta.json"), "w"), indent=1)
print(dst, "OK" if ok else "NOT CONFIRMED", out)
