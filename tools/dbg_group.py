#!/venv/bin/python
"""dbg_producer.py <replay.json>: show the first step where the Producer model and the observation differ."""
import json, os, re, sys
sys.path.insert(0, "/verif/harness")
from vh import tlc, tlaval, check_group, groupfam
rp = json.load(open(sys.argv[1]))
tr = rp["trace"]
name = rp["family"][len("group["):-1]
cfg = [c for c in groupfam.CONFIGS if c["name"] == name][0]
wd = tlc.workdir("dbgc")
sub = os.path.join(wd, "x"); os.makedirs(sub)
tf = os.path.join(sub, "t.json"); json.dump([tr], open(tf, "w"))
tdefs, tlines = check_group.trace_cfg(cfg)
tla, cfgp = tlc.write_mc(sub, "TV", "Group_Trace", tdefs, tlines)
rc, text, wall = tlc.run(tla, cfgp, sub, workers=1, env={"TRACE_FILE": tf, "TRACE_DEBUG": "1"})
print("config:", cfg)
m = re.search(r'<<\s*"MISMATCH"', text)
if not m:
    print("no mismatch; rc", rc); print(text[-2500:]); sys.exit()
v = tlaval.parse(tlc._balanced_after(text, m.start()))
l = v[2]
for i, r in enumerate(tr["steps"][:l], 1):
    if i >= l - 4: print(i, json.dumps(r["e"]), "\n     obs:", json.dumps(r["o"]))
print("MODEL at step", l, ":", json.dumps(tlaval.to_json(v[3])))
print("   pre-state:", json.dumps(tlaval.to_json(v[4])))
r = re.search(r'<<\s*"RESULT".*', text)
print(text[r.start():r.start()+300] if r else "")
