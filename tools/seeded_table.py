#!/usr/bin/env python3
"""Regenerate seeded/README.md from the meta.json files."""
import glob, json, os
HERE = os.path.dirname(os.path.dirname(os.path.abspath(__file__)))
rows = []
for d in sorted(glob.glob(os.path.join(HERE, "seeded", "*", "meta.json"))):
    j = json.load(open(d))
    rows.append((os.path.basename(os.path.dirname(d)), j.get("needs_to_manifest", ""), j.get("detected_by") or "not tried"))
out = ["# Seeded changes", "",
       "Each directory holds `patch.diff` (apply with `git -C /repo apply`), a demonstration `demo.py` that fails with the patch and passes",
       "without it, the author's `notes.md` (later batches) and `meta.json`.  All were written by sub-agents that saw only the",
       "property text and a scratch worktree; all leave the pinned suite unchanged.  `tools/try_mutant.sh <id> [property] [tier]`",
       "applies one, runs the check and undoes it.", "",
       "| id | what it needs to manifest | detected by |", "|---|---|---|"]
for r in rows:
    out.append("| %s | %s | %s |" % (r[0], r[1].replace("|", "/"), r[2].replace("|", "/")))
n = len(rows)
nd = sum(1 for r in rows if r[2] != "not tried" and "NOT detected" not in r[2].split(";")[0])
out += ["", "%d changes, %d detected by a registered check." % (n, nd)]
open(os.path.join(HERE, "seeded", "README.md"), "w").write("\n".join(out) + "\n")
print(n, nd)
