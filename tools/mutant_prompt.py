#!/usr/bin/env python3
"""Print the prompt given to an independent sub-agent that seeds a breaking change
for one property.  Only the property's text goes in; nothing from /verif."""
import json, sys
pid = sys.argv[1]
wt = "/tmp/wt/%s" % pid
out = "/tmp/wt/out-%s" % pid
for line in open("/verif/properties.jsonl"):
    p = json.loads(line)
    if p["id"] == pid:
        break
else:
    sys.exit("no such property")
print(f"""You are working in a scratch git worktree of the open-source ciena/afkak repository (a Twisted-native Apache Kafka client written in Python) at {wt}. Work ONLY inside {wt} and {out}; never touch /repo or /verif or any other directory.

How to run things: the interpreter is /venv/bin/python (afkak is installed there in editable mode pointing at a different checkout, so you MUST put your worktree first on the path): 
  cd {wt} && PYTHONPATH={wt} /venv/bin/python -m pytest -q -p no:cacheprovider afkak/test
Check with `cd {wt} && PYTHONPATH={wt} /venv/bin/python -c 'import afkak; print(afkak.__file__)'` that your worktree's copy is the one imported. The unmodified tree has exactly one pre-existing failing test (test_consumer.py::TestAfkakConsumer::test_consumer_stop_during_initial_proc_call); all 310 others pass. There is no network.

The behavioural property under study:

  Title: {p['title']}
  Statement: {p['statement']}
  It must hold: {p['quantifier']['text']}
  Code it is anchored in: {', '.join(p['anchors']['files'])}

Your task: produce TWO independent, realistic changes to the library source under afkak/ (not the tests) that each BREAK this property while the package still imports and the existing test-suite still passes exactly as before (same single pre-existing failure, nothing else fails or errors). Each change should look like a plausible slip a maintainer could make (refactoring mistake, off-by-one, dropped branch, wrong condition, reordered statements, stale variable, two cooperating sites that each look fine alone) - small, not an obviously malicious edit. Each change should need something specific to manifest: a particular interleaving of events, a fault or crash at a particular point, a multi-step sequence of operations, an unusual input, or a particular configuration - NOT something that ordinary use would expose immediately. The two changes should break different aspects of the property, in different places if possible.

For each change write a demonstration: a standalone script demo.py (no network; use twisted.internet.task.Clock, twisted.test.proto_helpers / twisted.internet.testing transports, unittest.mock, or hand-built byte strings as needed) that exits 0 on the unmodified code and exits non-zero, printing what went wrong, when the change is applied. Run it as: cd {wt} && PYTHONPATH={wt} /venv/bin/python {out}/mN/demo.py

Deliverables (create the directories):
  {out}/m1/patch.diff   - produced with `git diff` inside the worktree; must apply with `git apply` to a clean checkout
  {out}/m1/demo.py
  {out}/m1/notes.md     - which aspect of the property is broken, what is needed for it to manifest, what you ran and saw
  {out}/m2/patch.diff, {out}/m2/demo.py, {out}/m2/notes.md   - likewise

Before finishing, verify for each change: (a) with the patch applied the full test-suite gives the same result as the baseline, (b) demo.py fails with the patch and passes without it. Finally leave the worktree clean (`git -C {wt} checkout -- .` and remove stray files). Your final message should summarise the two changes in a few lines each.""")
