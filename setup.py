#!/usr/bin/env python3
"""setup_cmd: verify the tools this framework needs are present and every specification parses.
Builds nothing from /repo: every check imports afkak from /repo's working tree at run time."""
import glob
import os
import shutil
import subprocess
import sys

HERE = os.path.dirname(os.path.abspath(__file__))


def main():
    ok = True
    for tool in ("java", "tlc", "tla-sany"):
        if not shutil.which(tool):
            print("missing tool:", tool)
            ok = False
    if not os.path.exists("/venv/bin/python"):
        print("missing /venv/bin/python")
        ok = False
    os.makedirs(os.path.join(HERE, "build"), exist_ok=True)
    os.makedirs(os.path.join(HERE, "evidence"), exist_ok=True)
    r = subprocess.run(["/venv/bin/python", "-c", "import afkak, twisted; print(afkak.__file__)"],
                       capture_output=True, text=True)
    print("afkak:", r.stdout.strip() or r.stderr.strip()[-300:])
    ok = ok and r.returncode == 0
    env = dict(os.environ)
    for spec in sorted(glob.glob(os.path.join(HERE, "spec", "*.tla"))):
        p = subprocess.run(["java", "-DTLA-Library=%s" % os.path.join(HERE, "spec"), "-cp",
                            "/opt/veriftools/tla/tla2tools.jar:/opt/veriftools/tla/CommunityModules-deps.jar",
                            "tla2sany.SANY", spec], capture_output=True, text=True, cwd=os.path.join(HERE, "spec"), env=env)
        good = p.returncode == 0 and "error" not in p.stdout.lower().replace("errors: 0", "")
        print("%-28s %s" % (os.path.basename(spec), "ok" if good else "PARSE ERROR"))
        if not good:
            print(p.stdout[-1500:])
            ok = False
    sys.exit(0 if ok else 1)


if __name__ == "__main__":
    main()
