"""Verdicts, known findings, replay files and evidence for one property check."""
import json
import os
import sys
import time

from . import tlc as _tlc
from .tlc import BUILD, VERIF, MachineryError

KNOWN = os.path.join(VERIF, "known_findings.json")
LEVEL = "model_checking"


def load_known():
    try:
        with open(KNOWN) as f:
            return json.load(f)
    except FileNotFoundError:
        return {"findings": [], "fixed": []}


class Check:
    """Accumulates what a check run covered and found, then writes evidence and exits."""

    def __init__(self, prop, tier, seed):
        self.prop, self.tier, self.seed = prop, tier, seed
        self.t0 = time.time()
        self.states = 0
        self.transitions = 0
        self.traces = 0
        self.trace_steps = 0
        self.samples = []
        self.models = []          # per design-model run: name, constants, states, depth, wall
        self.violations = []      # dicts: clause, sig, what, replay
        self.known_hits = {}
        self.drift = 0
        self.drift_where = []
        self.clause_evals = {}
        self.notes = []
        self.assumptions = []
        self.exhaustive = None
        self.extra = {}
        self._known = [k for k in load_known().get("findings", []) if k.get("property") == prop]
        self._nreplay = 0
        # replay files of an earlier run of this check are stale
        import glob
        for f in glob.glob(os.path.join(BUILD, "replays", "%s-%s-*.json" % (prop, tier))):
            try:
                os.unlink(f)
            except OSError:
                pass

    # ---- coverage bookkeeping
    def add_model(self, name, res, constants, what=""):
        self.states += res.distinct
        self.transitions += res.generated
        self.models.append({"model": name, "constants": constants, "distinct_states": res.distinct,
                            "states_generated": res.generated, "depth": res.depth,
                            "wall_s": round(res.wall, 1), "what": what})

    def add_traces(self, n, steps, tlc_states=0):
        self.traces += n
        self.trace_steps += steps

    def sample(self, x):
        if len(self.samples) < 6:
            self.samples.append(x)

    def count(self, key, n=1):
        self.clause_evals[key] = self.clause_evals.get(key, 0) + n

    # ---- verdicts
    def replay_path(self, payload):
        d = os.path.join(BUILD, "replays")
        os.makedirs(d, exist_ok=True)
        self._nreplay += 1
        p = os.path.join(d, "%s-%s-%d.json" % (self.prop, self.tier, self._nreplay))
        with open(p, "w") as f:
            json.dump(payload, f, indent=1)
        return p

    def violation(self, clause, sig, what, payload):
        """Record a violation of `clause` (must belong to this property).  `sig` identifies the
        failing input / call site / history shape for matching against known findings."""
        for k in self._known:
            if k.get("clause") == clause and k.get("signature") == sig:
                self.known_hits.setdefault(k["id"], {"k": k, "n": 0})["n"] += 1
                return
        for v in self.violations:
            if v["clause"] == clause and v["sig"] == sig:
                v["count"] += 1
                return
        payload = dict(payload)
        payload.update({"property": self.prop, "clause": clause, "signature": sig, "what": what})
        self.violations.append({"clause": clause, "sig": sig, "what": what, "count": 1,
                                "replay": self.replay_path(payload)})

    def add_drift(self, n, where=None):
        self.drift += n
        if where is not None and len(self.drift_where) < 5:
            self.drift_where.append(where)

    # ---- output
    def finish(self, machinery_error=None):
        wall = time.time() - self.t0
        cov = {
            "states": self.states,
            "transitions": self.transitions,
            "traces_validated_against_impl": self.traces,
            "trace_steps_validated": self.trace_steps,
            "samples": self.samples or ["(none)"],
            "design_models": self.models,
            "clause_evaluations": self.clause_evals,
            "drift_steps": self.drift,
            "drift_first": self.drift_where,
            "known_findings_seen": {k: v["n"] for k, v in self.known_hits.items()},
            "notes": self.notes,
        }
        if self.exhaustive is not None:
            cov["exhaustive"] = self.exhaustive
        cov.update(self.extra)
        # TLC runs that ended in an error of the run itself and were repeated (tlc.run): kept visible, never a verdict
        cov["tlc_runs_repeated"] = [{k: r[k] for k in ("module", "workdir", "attempt", "workers", "rc", "error")} for r in _tlc.RETRIES]
        ev = {
            "property_id": self.prop,
            "tier": self.tier,
            "seed": self.seed,
            "level": LEVEL,
            "coverage": cov,
            "assumptions": self.assumptions,
            "wall_s": round(wall, 1),
            "violations": len(self.violations),
        }
        if machinery_error is None:
            os.makedirs(os.path.join(VERIF, "evidence"), exist_ok=True)
            with open(os.path.join(VERIF, "evidence", "%s.json" % self.prop), "w") as f:
                json.dump(ev, f, indent=1, sort_keys=True)
                f.write("\n")
        for kid, v in sorted(self.known_hits.items()):
            print("KNOWN-FINDING: property=%s %s [%s, seen %d times]" % (self.prop, v["k"]["what"], kid, v["n"]))
        if self.drift:
            print("DRIFT: property=%s %d step(s) where the implementation left the model without breaking a clause; first: %s"
                  % (self.prop, self.drift, self.drift_where[:2]))
        for v in self.violations:
            print("VIOLATION property=%s replay=%s" % (self.prop, v["replay"]))
            print("  clause=%s signature=%s count=%d: %s" % (v["clause"], v["sig"], v["count"], v["what"]))
        if machinery_error is not None:
            print("MACHINERY: %s" % machinery_error)
            sys.stdout.flush()
            sys.exit(2)
        print("%s %s: states=%d transitions=%d traces=%d steps=%d violations=%d known=%d drift=%d wall=%.1fs"
              % (self.prop, self.tier, self.states, self.transitions, self.traces, self.trace_steps,
                 len(self.violations), len(self.known_hits), self.drift, wall))
        sys.stdout.flush()
        sys.exit(1 if self.violations else 0)


def run_check(prop, tier, seed, body):
    """Run `body(check)`; machinery problems are exit 2, never a verdict."""
    chk = Check(prop, tier, seed)
    try:
        body(chk)
    except MachineryError as e:
        chk.finish(machinery_error=str(e))
    chk.finish()
