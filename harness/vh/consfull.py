"""Full-stack consumer runs: the real Consumer over the real KafkaClient, real broker clients, protocols
and codec, on the simulated network and cluster.  The partition log is laid out in the simulated broker
(gaps, compressed wrappers in both message formats at non-zero offsets, a message larger than the first
fetch buffer); broker-level events (answers with or without errors, drops, broker down/up, leader and
coordinator moves) and application calls are scheduled at random.

The consumer-level events of spec/Consumer.tla are DERIVED by the recorder: the client's four request
methods are wrapped on the instance, and the completion of each returned Deferred becomes one event
(FetchDone with the window of offsets the real decoder yields, FetchErr, OffsetsDone, OFetchDone,
CommitDone ...); consumer timers are tagged by their creator and become RetryFire / CommitRetry / Tick when
they fire.  A completion that happens while another consumer-level event is being processed is delivered
right after it (the client is asynchronous by contract), so events never nest.  The outcome of a commit is
taken from what the simulated coordinator did with it, not from what the client reported."""
import random
import sys

from twisted.internet import defer
from twisted.python import failure

from . import clientfam, consfam, kwire

BAD = consfam.BAD
TOPIC, PART, GROUP = "a", 0, "g"


def plain(magic, key, value):
    m = {"magic": magic, "attrs": 0, "key": key, "value": value}
    if magic == 1:
        m["ts"] = 1500000000000
    return m


def layout_mixed():
    """offsets 0,1 plain v0 | 3,4,6 in a gzip wrapper v1 (relative inner offsets 0,1,3: offset 5 compacted away inside
    the batch) | 7 big v1 | 9,10 gzip wrapper v0 | 11 plain v1   (2, 5 and 8 compacted away)"""
    v = lambda o: b"value-%02d" % o
    k = lambda o: (b"k%d" % o) if o % 2 else None
    inner1 = [(0, plain(1, k(3), v(3))), (1, plain(1, k(4), v(4))), (3, plain(1, k(6), v(6)))]
    inner0 = [(9, plain(0, k(9), v(9))), (10, plain(0, k(10), v(10)))]
    return [(0, plain(0, k(0), v(0))), (1, plain(0, k(1), v(1))),
            (6, kwire.wrapper(1, inner1, ts=1500000000000)),
            (7, plain(1, k(7), b"B" * 300)),
            (10, kwire.wrapper(0, inner0)),
            (11, plain(1, k(11), v(11)))]


def layout_small():
    v = lambda o: b"v%d" % o
    return [(2, plain(0, None, v(2))), (3, plain(0, b"k3", v(3))), (5, plain(1, b"k5", v(5)))]


def make_cfg(name, layout, block_n, auto_t, group, max_attempts, reset, sync, sizes, discovery):
    flat = kwire.flatten(layout())
    return {"name": name, "layout": layout, "log": [o for o, _ in flat], "block_n": block_n, "auto_t": auto_t, "group": group,
            "max_attempts": max_attempts, "reset": reset, "sync": sync, "max_buf": len(sizes) - 1, "sizes": sizes,
            "init_delay": 0.1, "max_delay": 0.2, "discovery": discovery}


CONFIGS = [
    # fetch v2 (version discovery): v1 messages and wrappers reach the decoder as stored; first buffer too small for offset 6
    make_cfg("full-mixed-v2-n2-async", layout_mixed, 2, True, True, 0, "earliest", False, [128, 2048], True),
    # fetch v0: the broker down-converts; synchronous processor, commit every message, attempt limit
    make_cfg("full-mixed-v0-n1-sync", layout_mixed, 1, False, True, 3, "latest", True, [128, 2048], False),
    make_cfg("full-small-nogroup", layout_small, 0, False, False, 2, "none", False, [4096], False),
]


def buffer_sizes(cfg):
    return cfg["sizes"], cfg["sizes"][-1]


class FullConsumerRun:
    def __init__(self, cfg, seed):
        from afkak.consumer import Consumer
        from afkak.common import OFFSET_EARLIEST, OFFSET_LATEST

        self.cfg = cfg
        self.cr = clientfam.ClientRun(seed, False, discovery=cfg["discovery"])
        self.clock, self.client, self.cluster = self.cr.clock, self.cr.client, self.cr.cluster
        if cfg["discovery"]:
            self.cluster.api_versions = [(k, 0, 3 if k in (kwire.PRODUCE, kwire.FETCH) else 1) for k in (0, 1, 2, 3, 8, 9, 10, 11, 12, 13, 14, 18)]
        part = self.cluster.topics[TOPIC][PART]
        self.cluster.store(part, cfg["layout"]())
        part.start = cfg["log"][0]
        self.truth = {o: (m["key"], m["value"]) for o, m in kwire.flatten(part.log)}
        self.sizes = cfg["sizes"]
        self.steps = []
        self.cur = None
        self.depth = 0
        self.queue = []
        self.timer_tags = {}
        self.proc_d = None
        self.overlap = False
        self.bad_content = False
        self.ncommit = 0
        self._wrap_clock()
        self._wrap_client()
        kw = {}
        if cfg["group"]:
            kw = dict(consumer_group=GROUP, auto_commit_every_n=cfg["block_n"], auto_commit_every_ms=(1000 if cfg["auto_t"] else 0))
        self.consumer = Consumer(self.client, TOPIC, PART, self.processor, buffer_size=self.sizes[0], max_buffer_size=self.sizes[-1],
                                 request_retry_init_delay=cfg["init_delay"], request_retry_max_delay=cfg["max_delay"],
                                 request_retry_max_attempts=cfg["max_attempts"],
                                 auto_offset_reset={"none": None, "earliest": OFFSET_EARLIEST, "latest": OFFSET_LATEST}[cfg["reset"]], **kw)

    # ---------------------------------------------------------------- consumer-level events
    def begin(self, ev):
        assert self.depth == 0, "nested consumer-level event"
        self.depth = 1
        self.cur = {"e": ev, "o": {"acts": [], "exc": "", "lp": -1, "lc": -1, "pending": 0, "overlap": False, "bad": False}}

    def end(self, exc=""):
        c = self.consumer
        lp, lc = c.last_processed_offset, c.last_committed_offset
        o = self.cur["o"]
        o["exc"] = exc
        o["lp"] = -1 if lp is None else lp
        o["lc"] = -1 if lc is None else lc
        o["pending"] = sum(1 for dc in self.clock.getDelayedCalls() if (self.timer_tags.get(id(dc)) or ("",))[0] in ("retry", "cretry", "tick"))
        o["overlap"] = self.overlap
        o["bad"] = self.bad_content
        self.steps.append(self.cur)
        self.cur = None
        self.depth = 0
        # completions that arrived meanwhile are delivered now, each as its own event
        while self.queue and self.depth == 0:
            outer, ev, r = self.queue.pop(0)
            if outer.called:
                continue
            self.deliver(outer, ev, r)

    def act(self, a):
        if self.cur is not None:
            self.cur["o"]["acts"].append(a)
        else:
            # the consumer did something outside every consumer-level event: recorded as an event of its own
            self.steps.append({"e": {"a": "Spontaneous", "x": 0, "w": [], "k": ""},
                               "o": {"acts": [a], "exc": "", "lp": -1, "lc": -1, "pending": 0, "overlap": False, "bad": False}})

    def deliver(self, outer, ev, r):
        self.begin(ev)
        exc = ""
        try:
            if isinstance(r, failure.Failure):
                outer.errback(r)
            else:
                outer.callback(r)
        except Exception as ex:      # (callbacks do not raise through Deferred; kept for the record)
            exc = "%s: %s" % (type(ex).__name__, ex)
        self.end(exc)

    # ---------------------------------------------------------------- processor
    def processor(self, consumer, msgs):
        if self.proc_d is not None and not self.proc_d.called:
            self.overlap = True
        for m in msgs:
            want = self.truth.get(m.offset)
            if want is None or (m.message.key, m.message.value) != want or m.topic != TOPIC or m.partition != PART:
                self.bad_content = True
        self.act(["proc", [m.offset for m in msgs]])
        if self.cfg["sync"]:
            return None
        self.proc_d = defer.Deferred()
        return self.proc_d

    # ---------------------------------------------------------------- wrapping
    def _wrap_clock(self):
        orig = self.clock.callLater

        def call_later(delay, fn, *a, **kw):
            f = sys._getframe(1)
            name = f.f_code.co_name
            tag = None
            if name == "_retry_fetch":
                tag = ("retry", "RetryFire")
            elif name == "_handle_commit_error":
                tag = ("cretry", "CommitRetry")
            elif name in ("_scheduleFrom", "_reschedule"):
                lc = f.f_locals.get("self")
                if getattr(getattr(lc, "f", None), "__name__", "") == "_auto_commit":
                    tag = ("tick", "Tick")
            if tag is None:
                dc = orig(delay, fn, *a, **kw)
                self.timer_tags[id(dc)] = None
                return dc

            def fired(*aa, **kk):
                if self.depth:
                    # a consumer timer firing inside another event cannot happen on a reactor; keep the record honest
                    return fn(*aa, **kk)
                self.begin({"a": tag[1], "x": 0, "w": [], "k": ""})
                exc = ""
                try:
                    return fn(*aa, **kk)
                except Exception as ex:
                    exc = "%s: %s" % (type(ex).__name__, ex)
                finally:
                    self.end(exc)
            dc = orig(delay, fired, *a, **kw)
            self.timer_tags[id(dc)] = tag
            if tag[0] != "tick":
                self.act(["timer", int(round(delay * 1e6))])
            return dc
        self.clock.callLater = call_later

    def _relay(self, d, classify):
        """hand the consumer a Deferred of its own; the client's result reaches it as one consumer-level event"""
        outer = defer.Deferred(canceller=lambda _: d.cancel())

        def done(r):
            if outer.called:
                return None
            if isinstance(r, failure.Failure) and r.check(defer.CancelledError):
                # the consumer cancelled the call (stop): part of the event in progress
                outer.errback(r)
                return None
            ev, r2 = classify(r)
            if self.depth:
                self.queue.append((outer, ev, r2))
            else:
                self.deliver(outer, ev, r2)
            return None
        d.addBoth(done)
        return outer

    def _wrap_client(self):
        from afkak import common as C
        c = self.client
        o_fetch, o_offsets, o_ofetch, o_commit = (c.send_fetch_request, c.send_offset_request, c.send_offset_fetch_request,
                                                   c.send_offset_commit_request)

        def E(a, x=0, w=None, k=""):
            return {"a": a, "x": x, "w": w or [], "k": k}

        def fetch(payloads, *a, **kw):
            p = payloads[0]
            self.act(["fetch", p.offset, self.sizes.index(p.max_bytes) if p.max_bytes in self.sizes else -p.max_bytes])

            def classify(r):
                if isinstance(r, failure.Failure):
                    return E("FetchErr", k="range" if r.check(C.OffsetOutOfRangeError) else "kafka"), r
                resp = [x for x in r if x.partition == PART][0]
                items, tail = [], None
                try:
                    for m in resp.messages:
                        items.append(m)
                except C.ConsumerFetchSizeTooSmall as ex:
                    tail = ex
                except Exception as ex:
                    tail = ex
                w = [m.offset for m in items]
                if isinstance(tail, C.ConsumerFetchSizeTooSmall) and not items:
                    w = [-1]
                elif tail is not None:
                    w = w + [BAD]

                def replay():
                    for m in items:
                        yield m
                    if tail is not None:
                        raise tail
                r2 = [C.FetchResponse(resp.topic, resp.partition, resp.error, resp.highwaterMark, replay())]
                return E("FetchDone", w=w), r2
            return self._relay(o_fetch(payloads, *a, **kw), classify)

        def offsets(payloads, *a, **kw):
            self.act(["offsets", payloads[0].time])

            def classify(r):
                if isinstance(r, failure.Failure):
                    return E("OffsetsErr"), r
                return E("OffsetsDone", x=r[0].offsets[0]), r
            return self._relay(o_offsets(payloads, *a, **kw), classify)

        def ofetch(group, payloads, *a, **kw):
            self.act(["ofetch"])

            def classify(r):
                if isinstance(r, failure.Failure):
                    return E("OFetchErr"), r
                return E("OFetchDone", x=r[0].offset), r
            return self._relay(o_ofetch(group, payloads, *a, **kw), classify)

        def commit(group, payloads, *a, **kw):
            self.act(["commit", payloads[0].offset])
            n0 = len(self.cluster.commits)

            def classify(r):
                seen = [x for x in self.cluster.commits[n0:] if x["offset"] == payloads[0].offset]
                accepted = bool(seen) and seen[-1]["error"] == 0
                if isinstance(r, failure.Failure):
                    if r.check(C.IllegalGeneration, C.InvalidGroupId, C.UnknownMemberId) or not r.check(C.KafkaError):
                        return E("CommitDone", k="fenced"), r
                    # (the coordinator may have stored the offset although the client saw a failure: still not acknowledged)
                    return E("CommitDone", k="retriable"), r
                # the client reports success: the event is what the coordinator actually did
                return E("CommitDone", k="ok" if accepted else "retriable"), r
            return self._relay(o_commit(group, payloads, *a, **kw), classify)

        c.send_fetch_request = fetch
        c.send_offset_request = offsets
        c.send_offset_fetch_request = ofetch
        c.send_offset_commit_request = commit

    def _watch(self, who, d):
        def cb(res):
            self.act(["fire", who, "ok", res if isinstance(res, int) else -1])

        def eb(f):
            self.act(["fire", who, "fail", 0])
        d.addCallbacks(cb, eb)

    # ---------------------------------------------------------------- scheduling
    @property
    def running(self):
        return self.consumer._start_d is not None

    def app(self, ev, fn):
        self.begin(ev)
        exc = ""
        try:
            fn()
        except Exception as ex:
            exc = "%s: %s" % (type(ex).__name__, ex)
        self.end(exc)

    def do(self, e):
        """one reactor event: an application call, a clock advance or a broker-level event"""
        a = e["a"]
        c = self.consumer
        cr = self.cr
        if a == "Start":
            self.app({"a": "Start", "x": e["x"], "w": [], "k": ""}, lambda: self._watch("start", c.start(e["x"])))
        elif a == "Stop":
            self.app({"a": "Stop", "x": 0, "w": [], "k": ""}, c.stop)
        elif a == "Shutdown":
            self.app({"a": "Shutdown", "x": 0, "w": [], "k": ""}, lambda: self._watch("shutdown", c.shutdown()))
        elif a == "Commit":
            self.app({"a": "Commit", "x": 0, "w": [], "k": e["k"]}, lambda: self._watch(e["k"], c.commit()))
        elif a == "ProcDone":
            d = self.proc_d
            self.app({"a": "ProcDone", "x": e["x"], "w": [], "k": ""},
                     (lambda: d.callback(None)) if e["x"] == 1 else
                     (lambda: d.errback(failure.Failure(defer.CancelledError()))) if e["x"] == 2 else
                     (lambda: d.errback(failure.Failure(ValueError("processor failed")))))
        elif a == "Advance":
            self.clock.fire_next()
        else:
            ce = dict(clientfam.EV0, a=a, t=e.get("t", 0), x=e.get("x", 0), pl=e.get("pl", []))
            if not cr.possible(ce):
                return False
            cr.step(ce)
            return True
        cr.fired, cr.issued, cr.wire, cr.kick = [], [], [], []
        cr.settle()
        cr.kick_backoff()
        cr.settle()
        return True

    def result(self):
        return {"cfg": self.cfg["name"], "steps": self.steps,
                "stored": [[x["offset"], x["error"]] for x in self.cluster.commits][-6:]}


def random_run(cfg, seed, length):
    from afkak.common import OFFSET_COMMITTED, OFFSET_EARLIEST, OFFSET_LATEST
    rng = random.Random(seed)
    run = FullConsumerRun(cfg, seed)
    log = cfg["log"]
    try:
        ncommit = 0
        for _ in range(length):
            cands = []
            c = run.consumer
            if not run.running:
                starts = [OFFSET_EARLIEST, OFFSET_LATEST, log[0], log[0] + 1, log[len(log) // 2], log[-1] + 1]
                if cfg["group"]:
                    starts += [OFFSET_COMMITTED, OFFSET_COMMITTED]
                cands.append((5, {"a": "Start", "x": rng.choice(starts)}))
            else:
                if c._shutdown_d is None:
                    cands.append((0.15, {"a": "Stop"}))
                if cfg["group"] and ncommit < 3:
                    cands.append((0.8, {"a": "Commit", "k": "c%d" % (ncommit + 1)}))
            cands.append((0.15, {"a": "Shutdown"}))
            if run.proc_d is not None and not run.proc_d.called:
                cands.append((6, {"a": "ProcDone", "x": 1 if rng.random() < 0.9 else rng.choice([0, 0, 2])}))
            if run.clock.next_due() is not None:
                cands.append((5, {"a": "Advance"}))
            for t in (1, 2, 3, 11, 12):
                e = dict(clientfam.EV0, a="Answer", t=t, x=0)
                if run.cr.possible(e):
                    api = run.cr._conn_for(t).oldest().req["api"]
                    errs = {kwire.FETCH: [6, 7, 1, 3], kwire.OFFSET_COMMIT: [14, 15, 16, 22, 25, 7], kwire.OFFSET_FETCH: [14, 16],
                            kwire.LIST_OFFSETS: [6, 7], kwire.METADATA: [5], kwire.FIND_COORDINATOR: [15]}.get(api, [7])
                    if rng.random() < 0.15:
                        e["x"] = rng.choice(errs)
                    cands.append((10, e))
            for b in (1, 2, 3):
                for a_, w in (("Drop", 0.2), ("Down", 0.1), ("Up", 1.5)):
                    e = dict(clientfam.EV0, a=a_, t=b)
                    if run.cr.possible(e):
                        cands.append((w, e))
                e = dict(clientfam.EV0, a="MoveLeader", t=b, pl=[[TOPIC, PART]])
                if run.cr.possible(e):
                    cands.append((0.25, e))
                e = dict(clientfam.EV0, a="MoveCoord", t=b)
                if run.cr.possible(e):
                    cands.append((0.2, e))
            tot = sum(w for w, _ in cands)
            r = rng.random() * tot
            for w, e in cands:
                r -= w
                if r <= 0:
                    break
            if e["a"] == "Commit":
                ncommit += 1
            run.do(e)
        return run.result()
    finally:
        run.cr.restore()
