"""Parser for TLA+ values as TLC prints them (state dumps, dot labels, PrintT output).

Values map to Python as: integers -> int, strings -> str, TRUE/FALSE -> bool,
<<a, b>> -> tuple, {a, b} -> frozenset, [f |-> v, ...] -> dict (str keys),
(k :> v @@ k :> v) -> dict (arbitrary keys), model values -> Sym(name).
"""


class Sym(str):
    """A TLA+ model value or other bare identifier."""

    def __repr__(self):
        return "Sym(%s)" % str.__repr__(self)


class ParseError(Exception):
    pass


class _P:
    def __init__(self, text):
        self.t = text
        self.i = 0
        self.n = len(text)

    def ws(self):
        t, n = self.t, self.n
        while self.i < n and t[self.i] in " \t\r\n":
            self.i += 1

    def peek(self, k=1):
        return self.t[self.i:self.i + k]

    def expect(self, tok):
        self.ws()
        if not self.t.startswith(tok, self.i):
            raise ParseError("expected %r at %d: %r" % (tok, self.i, self.t[self.i:self.i + 40]))
        self.i += len(tok)

    def value(self):
        self.ws()
        if self.i >= self.n:
            raise ParseError("unexpected end")
        c = self.t[self.i]
        if c == '"':
            return self.string()
        if c == "<" and self.peek(2) == "<<":
            self.i += 2
            return tuple(self.items(">>"))
        if c == "{":
            self.i += 1
            return frozenset(_freeze(x) for x in self.items("}"))
        if c == "[":
            return self.record()
        if c == "(":
            return self.function()
        if c == "-" or c.isdigit():
            j = self.i + 1
            while j < self.n and self.t[j].isdigit():
                j += 1
            v = int(self.t[self.i:j])
            self.i = j
            # a..b interval
            self.ws()
            if self.peek(2) == "..":
                self.i += 2
                hi = self.value()
                return frozenset(range(v, hi + 1))
            return v
        if c.isalpha() or c == "_":
            j = self.i
            while j < self.n and (self.t[j].isalnum() or self.t[j] == "_"):
                j += 1
            w = self.t[self.i:j]
            self.i = j
            if w == "TRUE":
                return True
            if w == "FALSE":
                return False
            return Sym(w)
        raise ParseError("unexpected %r at %d" % (c, self.i))

    def string(self):
        assert self.t[self.i] == '"'
        j = self.i + 1
        out = []
        while True:
            if j >= self.n:
                raise ParseError("unterminated string")
            c = self.t[j]
            if c == "\\":
                nx = self.t[j + 1]
                out.append({"n": "\n", "t": "\t", '"': '"', "\\": "\\"}.get(nx, nx))
                j += 2
                continue
            if c == '"':
                break
            out.append(c)
            j += 1
        self.i = j + 1
        return "".join(out)

    def items(self, close):
        res = []
        self.ws()
        if self.t.startswith(close, self.i):
            self.i += len(close)
            return res
        while True:
            res.append(self.value())
            self.ws()
            if self.t.startswith(close, self.i):
                self.i += len(close)
                return res
            self.expect(",")

    def record(self):
        self.expect("[")
        d = {}
        self.ws()
        if self.peek() == "]":
            self.i += 1
            return d
        while True:
            self.ws()
            j = self.i
            while j < self.n and (self.t[j].isalnum() or self.t[j] == "_"):
                j += 1
            name = self.t[self.i:j]
            self.i = j
            self.expect("|->")
            d[name] = self.value()
            self.ws()
            if self.peek() == "]":
                self.i += 1
                return d
            self.expect(",")

    def function(self):
        self.expect("(")
        d = {}
        while True:
            k = self.value()
            self.expect(":>")
            v = self.value()
            d[_freeze(k)] = v
            self.ws()
            if self.peek() == ")":
                self.i += 1
                return d
            self.expect("@@")


def _freeze(x):
    if isinstance(x, dict):
        return tuple(sorted((k, _freeze(v)) for k, v in x.items()))
    if isinstance(x, (list, tuple)):
        return tuple(_freeze(v) for v in x)
    if isinstance(x, (set, frozenset)):
        return frozenset(_freeze(v) for v in x)
    return x


def parse(text):
    p = _P(text)
    v = p.value()
    p.ws()
    if p.i != p.n:
        raise ParseError("trailing text at %d: %r" % (p.i, text[p.i:p.i + 40]))
    return v


def parse_state(text):
    """Parse a conjunction `/\\ v1 = val /\\ v2 = val` into {var: value}."""
    p = _P(text)
    d = {}
    while True:
        p.ws()
        if p.i >= p.n:
            return d
        if p.peek(2) == "/\\":
            p.i += 2
        p.ws()
        j = p.i
        while j < p.n and (p.t[j].isalnum() or p.t[j] == "_"):
            j += 1
        name = p.t[p.i:j]
        if not name:
            raise ParseError("expected variable at %d: %r" % (p.i, p.t[p.i:p.i + 40]))
        p.i = j
        p.expect("=")
        d[name] = p.value()


def to_json(v):
    """Convert a parsed TLA value into JSON-compatible Python (tuples/sets -> lists)."""
    if isinstance(v, dict):
        return {str(k): to_json(x) for k, x in v.items()}
    if isinstance(v, (tuple, list)):
        return [to_json(x) for x in v]
    if isinstance(v, (set, frozenset)):
        return sorted((to_json(x) for x in v), key=repr)
    if isinstance(v, Sym):
        return str(v)
    return v
