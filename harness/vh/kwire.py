"""An independent implementation of the Kafka protocol subset afkak speaks, written from the
protocol guide (DESIGN.md appendix A), not from afkak.  It is the simulated brokers' codec
and the second opinion on afkak's bytes; it is itself cross-checked against the vectors
that TLC computes from spec/Wire.tla (check_wire.py), so it is not trusted on its own word.

Abstract values are plain dicts/lists: strings are `str` (or None where nullable), byte
fields are `bytes` or None, 64-bit integers are Python ints.
"""
import gzip
import io
import struct
import zlib

PRODUCE, FETCH, LIST_OFFSETS, METADATA = 0, 1, 2, 3
OFFSET_COMMIT, OFFSET_FETCH, FIND_COORDINATOR = 8, 9, 10
JOIN_GROUP, HEARTBEAT, LEAVE_GROUP, SYNC_GROUP = 11, 12, 13, 14
API_VERSIONS = 18

NAMES = {0: "Produce", 1: "Fetch", 2: "ListOffsets", 3: "Metadata", 8: "OffsetCommit", 9: "OffsetFetch",
         10: "FindCoordinator", 11: "JoinGroup", 12: "Heartbeat", 13: "LeaveGroup", 14: "SyncGroup",
         18: "ApiVersions"}


class WireError(Exception):
    pass


class R:
    """Cursor over a byte string."""

    def __init__(self, data, pos=0):
        self.d = data
        self.p = pos

    def take(self, n):
        if n < 0 or self.p + n > len(self.d):
            raise WireError("need %d bytes at %d, have %d" % (n, self.p, len(self.d) - self.p))
        b = self.d[self.p:self.p + n]
        self.p += n
        return b

    def i8(self):
        return struct.unpack(">b", self.take(1))[0]

    def i16(self):
        return struct.unpack(">h", self.take(2))[0]

    def i32(self):
        return struct.unpack(">i", self.take(4))[0]

    def i64(self):
        return struct.unpack(">q", self.take(8))[0]

    def u32(self):
        return struct.unpack(">I", self.take(4))[0]

    def nstr(self):
        n = self.i16()
        if n == -1:
            return None
        if n < 0:
            raise WireError("string length %d" % n)
        return self.take(n).decode("utf-8")

    def string(self):
        s = self.nstr()
        if s is None:
            raise WireError("null where a string is required")
        return s

    def nbytes(self):
        n = self.i32()
        if n == -1:
            return None
        if n < 0:
            raise WireError("bytes length %d" % n)
        return self.take(n)

    def array(self, fn):
        n = self.i32()
        if n < 0:
            raise WireError("array count %d" % n)
        return [fn() for _ in range(n)]

    def end(self):
        if self.p != len(self.d):
            raise WireError("%d trailing bytes" % (len(self.d) - self.p))


def w_i8(v):
    return struct.pack(">b", v)


def w_i16(v):
    return struct.pack(">h", v)


def w_i32(v):
    return struct.pack(">i", v)


def w_i64(v):
    return struct.pack(">q", v)


def w_nstr(s):
    if s is None:
        return w_i16(-1)
    b = s.encode("utf-8")
    return w_i16(len(b)) + b


def w_nbytes(b):
    if b is None:
        return w_i32(-1)
    return w_i32(len(b)) + b


def w_array(items):
    return w_i32(len(items)) + b"".join(items)


# ------------------------------------------------------------------ CRC-32 (IEEE), table driven
_CRC_TABLE = []
for _i in range(256):
    _c = _i
    for _ in range(8):
        _c = (_c >> 1) ^ 0xEDB88320 if _c & 1 else _c >> 1
    _CRC_TABLE.append(_c)


def crc32(data):
    c = 0xFFFFFFFF
    for b in data:
        c = _CRC_TABLE[(c ^ b) & 0xFF] ^ (c >> 8)
    return c ^ 0xFFFFFFFF


# ------------------------------------------------------------------ messages and message sets
def enc_message(m):
    """m: {magic, attrs, ts (magic 1), key, value}"""
    body = w_i8(m["magic"]) + w_i8(m["attrs"])
    if m["magic"] == 1:
        body += w_i64(m["ts"])
    body += w_nbytes(m["key"]) + w_nbytes(m["value"])
    return struct.pack(">I", crc32(body)) + body


def enc_message_set(entries):
    """entries: list of (offset, message)"""
    out = b""
    for off, m in entries:
        em = enc_message(m)
        out += w_i64(off) + w_i32(len(em)) + em
    return out


def gz(data):
    buf = io.BytesIO()
    with gzip.GzipFile(fileobj=buf, mode="wb", mtime=0) as f:
        f.write(data)
    return buf.getvalue()


def ungz(data):
    return gzip.GzipFile(fileobj=io.BytesIO(data)).read()


def wrapper(magic, inner_entries, ts=0, codec=1):
    """A compressed wrapper message around `inner_entries` [(offset, message)]."""
    m = {"magic": magic, "attrs": codec, "key": None, "value": gz(enc_message_set(inner_entries))}
    if magic == 1:
        m["ts"] = ts
    return m


def parse_message(data):
    r = R(data)
    crc = r.u32()
    if crc != crc32(data[4:]):
        raise WireError("bad crc")
    m = {"magic": r.i8(), "attrs": r.i8()}
    if m["magic"] not in (0, 1):
        raise WireError("magic %d" % m["magic"])
    if m["magic"] == 1:
        m["ts"] = r.i64()
    m["key"] = r.nbytes()
    m["value"] = r.nbytes()
    r.end()
    return m


def parse_message_set(data, allow_partial=False):
    """-> list of (offset, message); a trailing partial entry is dropped when allow_partial."""
    out = []
    r = R(data)
    while r.p < len(data):
        try:
            off = r.i64()
            n = r.i32()
            body = r.take(n)
        except WireError:
            if allow_partial:
                break
            raise
        out.append((off, parse_message(body)))
    return out


def flatten(entries):
    """Logical messages of a (possibly compressed) message set with their absolute offsets,
    by the rule of each message format: magic 0 inner offsets are absolute; magic 1 inner
    offsets are relative and the wrapper carries the offset of the last inner message."""
    out = []
    for off, m in entries:
        codec = m["attrs"] & 0x07
        if codec == 0:
            out.append((off, m))
        elif codec == 1:
            inner = flatten(parse_message_set(ungz(m["value"])))
            if m["magic"] == 0:
                out.extend(inner)
            else:
                last = inner[-1][0] if inner else 0
                out.extend((off - last + io_, im) for io_, im in inner)
        else:
            raise WireError("codec %d not available" % codec)
    return out


# ------------------------------------------------------------------ requests
def parse_request(data):
    """-> dict(api, ver, corr, client, body) ; raises WireError if the bytes are not exactly
    one well-formed request of a supported api/version."""
    r = R(data)
    api, ver, corr = r.i16(), r.i16(), r.i32()
    client = r.nstr()
    key = (api, ver)
    if key not in _REQ:
        raise WireError("unsupported api %d version %d" % (api, ver))
    body = _REQ[key](r, ver)
    r.end()
    return {"api": api, "ver": ver, "corr": corr, "client": client, "body": body}


def _sized_message_set(r):
    n = r.i32()
    if n < 0:
        raise WireError("message set size %d" % n)
    return parse_message_set(r.take(n))


def _req_produce(r, ver):
    acks, timeout = r.i16(), r.i32()

    def part():
        p = r.i32()
        ms = _sized_message_set(r)
        for _, m in ms:
            want = 1 if ver >= 2 else 0
            if m["magic"] > want:
                raise WireError("message magic %d in Produce v%d" % (m["magic"], ver))
        return {"partition": p, "messages": ms}

    def topic():
        return {"topic": r.string(), "partitions": r.array(part)}
    return {"acks": acks, "timeout": timeout, "topics": r.array(topic)}


def _req_fetch(r, ver):
    replica, max_wait, min_bytes = r.i32(), r.i32(), r.i32()

    def part():
        return {"partition": r.i32(), "offset": r.i64(), "max_bytes": r.i32()}

    def topic():
        return {"topic": r.string(), "partitions": r.array(part)}
    return {"replica": replica, "max_wait": max_wait, "min_bytes": min_bytes, "topics": r.array(topic)}


def _req_list_offsets(r, ver):
    replica = r.i32()

    def part():
        return {"partition": r.i32(), "time": r.i64(), "max_offsets": r.i32()}

    def topic():
        return {"topic": r.string(), "partitions": r.array(part)}
    return {"replica": replica, "topics": r.array(topic)}


def _req_metadata(r, ver):
    return {"topics": r.array(r.string)}


def _req_offset_commit(r, ver):
    group, gen, member = r.string(), r.i32(), r.string()

    def part():
        return {"partition": r.i32(), "offset": r.i64(), "timestamp": r.i64(), "metadata": r.nstr_bytes()}

    def topic():
        return {"topic": r.string(), "partitions": r.array(part)}
    return {"group": group, "generation": gen, "member": member, "topics": r.array(topic)}


def _nstr_bytes(self):
    n = self.i16()
    if n == -1:
        return None
    if n < 0:
        raise WireError("string length %d" % n)
    return self.take(n)


R.nstr_bytes = _nstr_bytes


def _req_offset_fetch(r, ver):
    group = r.string()

    def topic():
        return {"topic": r.string(), "partitions": r.array(r.i32)}
    return {"group": group, "topics": r.array(topic)}


def _req_find_coordinator(r, ver):
    return {"group": r.string()}


def _req_join_group(r, ver):
    group, session, member, ptype = r.string(), r.i32(), r.string(), r.string()

    def proto():
        return {"name": r.string(), "metadata": r.nbytes()}
    return {"group": group, "session_timeout": session, "member": member, "protocol_type": ptype,
            "protocols": r.array(proto)}


def _req_sync_group(r, ver):
    group, gen, member = r.string(), r.i32(), r.string()

    def asg():
        return {"member": r.string(), "assignment": r.nbytes()}
    return {"group": group, "generation": gen, "member": member, "assignments": r.array(asg)}


def _req_heartbeat(r, ver):
    return {"group": r.string(), "generation": r.i32(), "member": r.string()}


def _req_leave_group(r, ver):
    return {"group": r.string(), "member": r.string()}


def _req_api_versions(r, ver):
    return {}


_REQ = {(PRODUCE, 0): _req_produce, (PRODUCE, 2): _req_produce, (FETCH, 0): _req_fetch, (FETCH, 2): _req_fetch,
        (LIST_OFFSETS, 0): _req_list_offsets, (METADATA, 0): _req_metadata, (OFFSET_COMMIT, 1): _req_offset_commit,
        (OFFSET_FETCH, 1): _req_offset_fetch, (FIND_COORDINATOR, 0): _req_find_coordinator,
        (JOIN_GROUP, 0): _req_join_group, (SYNC_GROUP, 0): _req_sync_group, (HEARTBEAT, 0): _req_heartbeat,
        (LEAVE_GROUP, 0): _req_leave_group, (API_VERSIONS, 0): _req_api_versions}


def enc_request(api, ver, corr, client, body):
    """Encoder for the same abstract syntax parse_request produces (used to cross-check with Wire.tla)."""
    h = w_i16(api) + w_i16(ver) + w_i32(corr) + w_nstr(client)
    b = body
    if api == PRODUCE:
        return h + w_i16(b["acks"]) + w_i32(b["timeout"]) + w_array([
            w_nstr(t["topic"]) + w_array([
                w_i32(p["partition"]) + w_nbytes(enc_message_set(p["messages"])) for p in t["partitions"]])
            for t in b["topics"]])
    if api == FETCH:
        return h + w_i32(b["replica"]) + w_i32(b["max_wait"]) + w_i32(b["min_bytes"]) + w_array([
            w_nstr(t["topic"]) + w_array([w_i32(p["partition"]) + w_i64(p["offset"]) + w_i32(p["max_bytes"])
                                          for p in t["partitions"]]) for t in b["topics"]])
    if api == LIST_OFFSETS:
        return h + w_i32(b["replica"]) + w_array([
            w_nstr(t["topic"]) + w_array([w_i32(p["partition"]) + w_i64(p["time"]) + w_i32(p["max_offsets"])
                                          for p in t["partitions"]]) for t in b["topics"]])
    if api == METADATA:
        return h + w_array([w_nstr(t) for t in b["topics"]])
    if api == OFFSET_COMMIT:
        return h + w_nstr(b["group"]) + w_i32(b["generation"]) + w_nstr(b["member"]) + w_array([
            w_nstr(t["topic"]) + w_array([
                w_i32(p["partition"]) + w_i64(p["offset"]) + w_i64(p["timestamp"]) +
                (w_i16(-1) if p["metadata"] is None else w_i16(len(p["metadata"])) + p["metadata"])
                for p in t["partitions"]]) for t in b["topics"]])
    if api == OFFSET_FETCH:
        return h + w_nstr(b["group"]) + w_array([
            w_nstr(t["topic"]) + w_array([w_i32(p) for p in t["partitions"]]) for t in b["topics"]])
    if api == FIND_COORDINATOR:
        return h + w_nstr(b["group"])
    if api == JOIN_GROUP:
        return h + w_nstr(b["group"]) + w_i32(b["session_timeout"]) + w_nstr(b["member"]) + w_nstr(b["protocol_type"]) + \
            w_array([w_nstr(p["name"]) + w_nbytes(p["metadata"]) for p in b["protocols"]])
    if api == SYNC_GROUP:
        return h + w_nstr(b["group"]) + w_i32(b["generation"]) + w_nstr(b["member"]) + \
            w_array([w_nstr(a["member"]) + w_nbytes(a["assignment"]) for a in b["assignments"]])
    if api == HEARTBEAT:
        return h + w_nstr(b["group"]) + w_i32(b["generation"]) + w_nstr(b["member"])
    if api == LEAVE_GROUP:
        return h + w_nstr(b["group"]) + w_nstr(b["member"])
    if api == API_VERSIONS:
        return h
    raise WireError("api %d" % api)


# ------------------------------------------------------------------ responses
def enc_response(api, ver, corr, b):
    h = w_i32(corr)
    if api == PRODUCE:
        body = w_array([w_nstr(t["topic"]) + w_array([
            w_i32(p["partition"]) + w_i16(p["error"]) + w_i64(p["offset"]) + (w_i64(p.get("log_append_time", -1)) if ver >= 2 else b"")
            for p in t["partitions"]]) for t in b["topics"]])
        if ver >= 1:
            body += w_i32(b.get("throttle", 0))
        return h + body
    if api == FETCH:
        body = w_array([w_nstr(t["topic"]) + w_array([
            w_i32(p["partition"]) + w_i16(p["error"]) + w_i64(p["hwm"]) + w_nbytes(p["records"])
            for p in t["partitions"]]) for t in b["topics"]])
        return h + (w_i32(b.get("throttle", 0)) if ver >= 1 else b"") + body
    if api == LIST_OFFSETS:
        return h + w_array([w_nstr(t["topic"]) + w_array([
            w_i32(p["partition"]) + w_i16(p["error"]) + w_array([w_i64(o) for o in p["offsets"]])
            for p in t["partitions"]]) for t in b["topics"]])
    if api == METADATA:
        return h + w_array([w_i32(n["node"]) + w_nstr(n["host"]) + w_i32(n["port"]) for n in b["brokers"]]) + \
            w_array([w_i16(t["error"]) + w_nstr(t["topic"]) + w_array([
                w_i16(p["error"]) + w_i32(p["partition"]) + w_i32(p["leader"]) +
                w_array([w_i32(x) for x in p["replicas"]]) + w_array([w_i32(x) for x in p["isr"]])
                for p in t["partitions"]]) for t in b["topics"]])
    if api == OFFSET_COMMIT:
        return h + w_array([w_nstr(t["topic"]) + w_array([w_i32(p["partition"]) + w_i16(p["error"])
                                                          for p in t["partitions"]]) for t in b["topics"]])
    if api == OFFSET_FETCH:
        return h + w_array([w_nstr(t["topic"]) + w_array([
            w_i32(p["partition"]) + w_i64(p["offset"]) +
            (w_i16(-1) if p["metadata"] is None else w_i16(len(p["metadata"])) + p["metadata"]) + w_i16(p["error"])
            for p in t["partitions"]]) for t in b["topics"]])
    if api == FIND_COORDINATOR:
        return h + w_i16(b["error"]) + w_i32(b["node"]) + w_nstr(b["host"]) + w_i32(b["port"])
    if api == JOIN_GROUP:
        return h + w_i16(b["error"]) + w_i32(b["generation"]) + w_nstr(b["protocol"]) + w_nstr(b["leader"]) + \
            w_nstr(b["member"]) + w_array([w_nstr(m["member"]) + w_nbytes(m["metadata"]) for m in b["members"]])
    if api == SYNC_GROUP:
        return h + w_i16(b["error"]) + w_nbytes(b["assignment"])
    if api in (HEARTBEAT, LEAVE_GROUP):
        return h + w_i16(b["error"])
    if api == API_VERSIONS:
        return h + w_i16(b["error"]) + w_array([w_i16(k) + w_i16(lo) + w_i16(hi) for (k, lo, hi) in b["versions"]])
    raise WireError("api %d" % api)


# ------------------------------------------------------------------ consumer embedded protocol
def enc_subscription(topics, user_data=b"", version=0):
    return w_i16(version) + w_array([w_nstr(t) for t in topics]) + w_nbytes(user_data)


def parse_subscription(data):
    r = R(data)
    v = r.i16()
    topics = r.array(r.string)
    ud = r.nbytes()
    r.end()
    return {"version": v, "topics": topics, "user_data": ud}


def enc_assignment(asg, user_data=b"", version=0):
    """asg: list of (topic, [partitions])"""
    return w_i16(version) + w_array([w_nstr(t) + w_array([w_i32(p) for p in ps]) for t, ps in asg]) + w_nbytes(user_data)


def parse_assignment(data):
    r = R(data)
    v = r.i16()

    def one():
        return (r.string(), r.array(r.i32))
    asg = r.array(one)
    ud = r.nbytes()
    r.end()
    return {"version": v, "assignment": asg, "user_data": ud}
