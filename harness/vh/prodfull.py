"""Full-stack producer runs: the real Producer over the real KafkaClient, real broker clients and
protocols, on the simulated network and cluster.  Broker-level events are scheduled at random; the
producer-level events of spec/Producer.tla (client calls completing, producer timers firing) are
derived by the recorder, which wraps the client's methods on the instance and tags timers by their
creator.  What the brokers appended is recorded too (ground truth for C01.truth)."""
import random
import sys

from twisted.internet import defer

from . import clientfam, kwire, prodfam


class RecordingHashed:
    """partitioner_class: afkak's HashedPartitioner, recording what it returns per key"""
    record = {}

    def __init__(self, topic, partitions):
        from afkak.partitioner import HashedPartitioner
        self.inner = HashedPartitioner(topic, partitions)

    def partition(self, key, partitions):
        p = self.inner.partition(key, partitions)
        RecordingHashed.record[key] = p
        return p


class FullRun:
    def __init__(self, cfg, seed):
        from afkak.producer import Producer

        self.cfg = cfg
        self.cr = clientfam.ClientRun(seed, False)
        self.clock = self.cr.clock
        self.client = self.cr.client
        self.log = []          # ("mark", event) | ("act", action) | ("applied", rec)
        self.ds, self.done = {}, set()
        self.timer_tags = {}
        self.stopped = False
        self.stop_mark = None
        RecordingHashed.record = {}
        self._wrap_clock()
        self._wrap_client()
        self.producer = Producer(self.client, partitioner_class=RecordingHashed, req_acks=cfg["acks"],
                                 max_req_attempts=cfg["max_attempts"], retry_interval=cfg["interval"],
                                 batch_send=not (cfg["batch_n"] == 1 and cfg["batch_b"] == 1 and not cfg["batch_t"]),
                                 batch_every_n=cfg["batch_n"], batch_every_b=cfg["batch_b"],
                                 batch_every_t=cfg["batch_t"] or None)
        self._wrap_cluster()
        self.steps = []
        self.napplied = 0

    # ---------------------------------------------------------------- recording
    def mark(self, ev, firing=0):
        # `firing`: this event IS a producer timer firing; that timer was still armed when the previous event ended
        self.log.append(("mark", ev, self._known(), self._pending() + firing))

    def act(self, a):
        self.log.append(("act", a))

    def _known(self):
        return sorted(t for t in ("a", "b") if self.client.metadata_error_for_topic(t) == 0)

    def _pending(self):
        return sum(1 for dc in self.clock.getDelayedCalls() if (self.timer_tags.get(id(dc)) or ("",))[0] in ("metaretry", "retry"))

    @staticmethod
    def _caller(names, depth=14):
        f = sys._getframe(2)
        for _ in range(depth):
            if f is None:
                return None, None
            if f.f_code.co_name in names:
                return f.f_code.co_name, f
            f = f.f_back
        return None, None

    def _wrap_clock(self):
        orig = self.clock.callLater

        def call_later(delay, fn, *a, **kw):
            # only the direct caller counts: the client's own timers are created deeper in the same stack
            f = sys._getframe(1)
            name = f.f_code.co_name if f.f_code.co_name in ("_next_partition", "_check_retry_payloads", "_scheduleFrom", "_reschedule") else None
            tag = None
            if name == "_next_partition":
                key = f.f_locals.get("key")
                tag = ("metaretry", int(key[1:]) if key and key.startswith(b"s") else 0)
            elif name == "_check_retry_payloads":
                tag = ("retry",)
            elif name in ("_scheduleFrom", "_reschedule"):
                lc = f.f_locals.get("self")
                if getattr(lc, "f", None) is not None and getattr(lc.f, "__name__", "") == "_send_batch":
                    tag = ("tick",)
            if tag is not None and tag[0] != "tick":
                def fired(*aa, **kk):
                    self.mark({"a": "MetaRetry", "sid": tag[1], "x": 0, "res": []} if tag[0] == "metaretry"
                              else {"a": "RetryFire", "sid": 0, "x": 0, "res": []}, firing=1)
                    return fn(*aa, **kk)
                dc = orig(delay, fired, *a, **kw)
                self.act(["timer", int(round(delay * 1e6))])
            elif tag is not None:
                def ticked(*aa, **kk):
                    self.mark({"a": "Tick", "sid": 0, "x": 0, "res": []})
                    return fn(*aa, **kk)
                dc = orig(delay, ticked, *a, **kw)
            else:
                dc = orig(delay, fn, *a, **kw)
            self.timer_tags[id(dc)] = tag
            return dc
        self.clock.callLater = call_later

    def _wrap_client(self):
        from afkak import common as C
        c = self.client
        orig_load = c.load_metadata_for_topics
        orig_send = c.send_produce_request
        orig_reset = c.reset_topic_metadata

        def load(*topics):
            name, f = self._caller(("_next_partition",))
            if name is None:
                return orig_load(*topics)
            key = f.f_locals.get("key")
            sid = int(key[1:]) if key and key.startswith(b"s") else 0
            self.act(["meta", topics[0]])
            d = orig_load(*topics)

            def done(r):
                bad = hasattr(r, "check")
                if not self.stopped:        # (a stopped producer has abandoned its lookups)
                    self.mark({"a": "MetaDone", "sid": sid, "x": 0 if bad else 1, "res": []})
                return r
            d.addBoth(done)
            return d

        def send(payloads, *a, **kw):
            name, _ = self._caller(("_send_requests", "_do_retry"))
            if name is None:
                return orig_send(payloads, *a, **kw)
            self.act(["produce", self.describe(payloads)])
            d = orig_send(payloads, *a, **kw)

            def done(r):
                if not self.stopped:
                    self.mark({"a": "ProduceDone", "sid": 0, "x": 0, "res": self._outcome(payloads, r)})
                elif self.stop_mark is not None and not self.stop_mark["res"]:
                    # the client call cancelled by stop() reports what it has: part of the Stop event
                    self.stop_mark["res"] = self._outcome(payloads, r)
                return r
            d.addBoth(done)
            return d

        def reset(*topics):
            name, _ = self._caller(("_check_retry_payloads",))
            if name is not None:
                for t in topics:
                    self.act(["reset", t])
            return orig_reset(*topics)

        c.load_metadata_for_topics = load
        c.send_produce_request = send
        c.reset_topic_metadata = reset

    def _outcome(self, payloads, r):
        from afkak import common as C
        if hasattr(r, "check"):
            if r.check(C.FailedPayloadsError):
                resps, failed = r.value.args[0], r.value.args[1]
                by = {(x.topic, x.partition): x.error for x in resps}
                bad = {(p.topic, p.partition) for p, _ in failed}
                return {"kind": "resp", "codes": [-1 if (p.topic, p.partition) in bad else by.get((p.topic, p.partition), -1) for p in payloads]}
            if r.check(defer.CancelledError, C.CancelledError):
                return {"kind": "cancelled", "codes": []}
            if r.check(C.KafkaError):
                return {"kind": "kafka", "codes": []}
            return {"kind": "other", "codes": []}
        if not r:
            return {"kind": "empty", "codes": []}
        by = {(x.topic, x.partition): x.error for x in r}
        return {"kind": "resp", "codes": [by.get((p.topic, p.partition), -1) for p in payloads]}

    @staticmethod
    def describe(payloads):
        out = []
        for p in payloads:
            sids = []
            for m in p.messages:
                k = m.key
                sid = int(k[1:]) if k and k.startswith(b"s") else 0
                if sid not in sids:
                    sids.append(sid)
            out.append([p.topic, p.partition, sids])
        return out

    def _wrap_cluster(self):
        cl = self.cr.cluster
        orig_respond = cl.respond

        def respond(api, ver, b, node, override):
            resp = orig_respond(api, ver, b, node, override)
            if api == kwire.PRODUCE:
                for t in b["topics"]:
                    for p in t["partitions"]:
                        part = cl.topics.get(t["topic"], {}).get(p["partition"])
                        leader = part is not None and part.leader == node
                        code = (override if isinstance(override, int) else None)
                        if code is None:
                            code = 0 if leader else (3 if part is None else 6)
                        ids, seen = [], {}
                        for off, m in p["messages"]:
                            k = m["key"]
                            sid = int(k[1:]) if k and k.startswith(b"s") else 0
                            ids.append(sid * 100 + seen.get(sid, 0))
                            seen[sid] = seen.get(sid, 0) + 1
                        self.log.append(("applied", {"topic": t["topic"], "part": p["partition"], "ids": ids, "code": code, "leader": leader}))
            return resp
        cl.respond = respond

    def _watch(self, sid, d):
        def cb(res):
            self.done.add(sid)
            if res is None or hasattr(res, "topic"):
                self.act(["fire", sid, "ok", [res.topic, res.partition] if res is not None else ["", -1]])
            else:
                self.act(["fire", sid, "ok", ["!" + type(res).__name__, -1]])

        def eb(f):
            self.done.add(sid)
            self.act(["fire", sid, "fail", [type(f.value).__name__, -1]])
        d.addCallbacks(cb, eb)

    # ---------------------------------------------------------------- scheduling
    def do(self, e):
        """one reactor event (application call or broker-level event)"""
        a = e["a"]
        cr = self.cr
        try:
            if a == "Send":
                sid = e["sid"]
                self.mark({"a": "Send", "sid": sid, "x": 0, "res": []})
                d = self.producer.send_messages(self.cfg["sends"][sid - 1][0], key=b"s%d" % sid, msgs=prodfam.msgs_of(self.cfg, sid))
                self.ds[sid] = d
                self._watch(sid, d)
            elif a == "Cancel":
                self.mark({"a": "Cancel", "sid": e["sid"], "x": 0, "res": []})
                self.ds[e["sid"]].cancel()
            elif a == "Stop":
                self.stop_mark = {"a": "Stop", "sid": 0, "x": 0, "res": []}
                self.mark(self.stop_mark)
                self.stopped = True
                self.producer.stop()
            elif a == "Advance":
                self.clock.fire_next()
            else:
                ce = dict(clientfam.EV0, a=a, t=e.get("t", 0), x=e.get("x", 0), pl=e.get("pl", []))
                if not cr.possible(ce):
                    return False
                cr.step(ce)
                self.log.append(("end",))
                return True
            cr.fired, cr.issued, cr.wire, cr.kick = [], [], [], []
            cr.settle()
            cr.kick_backoff()
            cr.settle()
        except Exception as ex:
            self.log.append(("exc", "%s: %s" % (type(ex).__name__, ex)))
        self.log.append(("end",))
        return True

    def result(self):
        """group the flat log into producer-level steps"""
        steps = []
        cur = None
        applied = []
        ended = False
        for rec in self.log:
            k = rec[0]
            if k == "mark":
                if cur is not None and not ended:
                    # another producer-level event inside the same reactor event: the timers armed when it begins
                    # are those the previous one left
                    cur["o"]["pending"] = rec[3]
                ended = False
                cur = {"e": rec[1], "known": rec[2], "o": {"acts": [], "exc": "", "pending": 0, "applied": applied}}
                applied = []
                steps.append(cur)
            elif k == "act" and cur is not None:
                cur["o"]["acts"].append(rec[1])
            elif k == "applied":
                if cur is not None and False:
                    cur["o"]["applied"].append(rec[1])
                applied.append(rec[1])
            elif k == "exc" and cur is not None:
                cur["o"]["exc"] = rec[1]
            elif k == "end" and cur is not None:
                cur["o"]["pending"] = self._pending_at_end.get(len(steps), cur["o"]["pending"])
                ended = True
        # the partition a send was given is the environment's choice, stated on its Send event
        for st in steps:
            if st["e"]["a"] == "Send":
                st["e"]["x"] = RecordingHashed.record.get(b"s%d" % st["e"]["sid"], 0)
        return {"cfg": {"name": self.cfg["name"], "acks": self.cfg["acks"]}, "steps": steps,
                "msgs": [prodfam.msg_ids(self.cfg, i + 1) for i in range(len(self.cfg["sends"]))]}


def random_run(cfg, seed, length):
    rng = random.Random(seed)
    run = FullRun(cfg, seed)
    run._pending_at_end = {}
    try:
        n = len(cfg["sends"])
        nsend = 0
        for _ in range(length):
            cands = []
            if nsend < n and not run.stopped:
                cands.append((6, {"a": "Send", "sid": nsend + 1}))
            pend = [i for i in run.ds if i not in run.done]
            if pend:
                cands.append((1, {"a": "Cancel", "sid": rng.choice(pend)}))
            if not run.stopped:
                cands.append((0.3, {"a": "Stop"}))
            if run.clock.next_due() is not None:
                cands.append((3, {"a": "Advance"}))
            for t in (1, 2, 3, 11, 12):
                e = dict(clientfam.EV0, a="Answer", t=t, x=rng.choice([0, 0, 0, 0, 0, 6, 7]))
                if run.cr.possible(e):
                    cands.append((9, e))
            for b in (1, 2, 3):
                for a_, w in (("Drop", 0.6), ("Down", 0.5), ("Up", 1.2)):
                    e = dict(clientfam.EV0, a=a_, t=b)
                    if run.cr.possible(e):
                        cands.append((w, e))
                tp = rng.choice(clientfam.TPS)
                e = dict(clientfam.EV0, a="MoveLeader", t=b, pl=[list(tp)])
                if run.cr.possible(e):
                    cands.append((0.5, e))
            tot = sum(w for w, _ in cands)
            r = rng.random() * tot
            for w, e in cands:
                r -= w
                if r <= 0:
                    break
            if e["a"] == "Send":
                nsend += 1
            run.do(e)
            # the number of producer timers armed at the end of the reactor event belongs to the last step
            nsteps = sum(1 for rec in run.log if rec[0] == "mark")
            run._pending_at_end.setdefault(nsteps, run._pending())
        return run.result()
    finally:
        run.cr.restore()
