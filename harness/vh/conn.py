"""Scenario family `conn`: a bare afkak _KafkaBrokerClient (with its KafkaProtocol) on the
simulated network.  Events are those of spec/BrokerConn.tla; `execute` performs a list of
events on the real object and records, per event, what became observable."""
import random
import struct

from twisted.internet import defer

from . import sim

POLICY_US = [100000, 200000, 400000]


def _policy(failures):
    return POLICY_US[min(failures, len(POLICY_US)) - 1] / 1e6


def _addr(a):
    return ("h%d" % a, 9000 + a)


class ConnRun:
    def __init__(self):
        from afkak.brokerclient import _KafkaBrokerClient
        from afkak.common import BrokerMetadata

        self.BrokerMetadata = BrokerMetadata
        self.clock = sim.SimClock()
        self.net = sim.SimNet()
        h, p = _addr(1)
        self.bc = _KafkaBrokerClient(self.clock, self.net.endpoint_factory, BrokerMetadata(1, h, p), "verif", _policy)
        self.ds = {}          # id -> Deferred (latest)
        self.done = set()     # ids whose Deferred fired
        self.fired = []       # filled by callbacks during the current event
        self.down_fired = False
        self.closed = False
        self.mid = None       # (id) of a partially delivered frame
        self.cbs = {}         # id -> API call its callback makes when it fires (this event only)
        self.cb_exc = ""
        self.raised = False
        self.tfired = ()
        self.trace = []

    # -- helpers
    def _tr(self):
        live = self.net.live()
        return live[-1] if live else None

    def _watch(self, rid, d):
        def cb(res):
            if res is None:
                self.fired.append([rid, "none", 0])
            elif isinstance(res, bytes) and len(res) >= 9 and res[4:5] == b"K":
                (cid,) = struct.unpack(">i", res[:4])
                # the value identifies the exact frame: serial if the id inside is ours, else garbage
                self.fired.append([rid, "resp", int(res[5:9]) if cid == rid else -cid - 1000])
            else:
                self.fired.append([rid, "resp", -1])
            self.done.add(rid)

        def eb(f):
            from afkak.common import ClientError

            if f.check(defer.CancelledError):
                k = "cancelled"
            elif f.check(ClientError):
                k = "closed"
            else:
                k = "error:" + f.type.__name__
            self.fired.append([rid, k, 0])
            self.done.add(rid)

        def then(_):
            c = self.cbs.pop(rid, None)
            if c is not None:
                # the application's callback calls back into the API, inside this reactor event
                try:
                    self._act(c["a"], c["id"], c["x"])
                except Exception as ex:
                    self.cb_exc = type(ex).__name__

        d.addCallbacks(cb, eb)
        d.addBoth(then)

    @staticmethod
    def frame(j, k):
        body = struct.pack(">i", j) + b"K%04d" % k
        return struct.pack(">i", len(body)) + body

    # -- which events are possible now (from the real objects' state)
    def possible(self, e):
        a = e["a"]
        x_ = e.get("x", 0)
        cb = e.get("cb")
        if cb and cb["a"] != "none" and a == "Close":
            ok = lambda i: i in self.ds and i not in self.done
            return cb["a"] == "Cancel" and e["id"] != cb["id"] and ok(e["id"]) and ok(cb["id"]) and not self.closed
        if cb and cb["a"] != "none":
            if a not in ("Frame", "Rest", "Cancel"):
                return False
            if e["id"] not in self.ds or e["id"] in self.done:
                return False
            if cb["a"] == "MakeRequest" and cb["id"] in self.ds:
                return False
            if cb["a"] == "Cancel" and (cb["id"] not in self.ds or cb["id"] in self.done or cb["id"] == e["id"]):
                return False
            if cb["a"] == "Close" and self.closed:
                return False
        tr = self._tr()
        up = tr is not None and not tr.disconnecting
        if a in ("ConnectOK", "ConnectFail"):
            return len(self.net.pending_attempts()) == 1
        if a == "Timer":
            return self.clock.next_due() is not None
        if a in ("Frame", "Partial", "BadLen"):
            return up and self.mid is None
        if a == "Rest":
            return up and self.mid == e["id"]
        if a == "ConnLost":
            return tr is not None
        if a == "Cancel":
            return e["id"] in self.ds and e["id"] not in self.done
        if a == "Close":
            return not self.closed and (x_ != 1 or len(self.net.pending_attempts()) == 1)
        if a == "Arm":
            return self.net.sync_next == 0 and e["x"] in (1, 2)
        return True

    NOCB = {"a": "none", "id": 0, "x": 0}

    def _act(self, a, rid, x, cb=None):
        """Perform one API call / environment event on the real objects."""
        if a == "MakeRequest":
            from afkak.common import DuplicateRequestError

            req = struct.pack(">hhih", 3, 0, rid, 0) + b"\0\0\0\0"
            try:
                d = self.bc.makeRequest(rid, req, expectResponse=bool(x))
            except DuplicateRequestError:
                self.raised = True
            else:
                self.ds[rid] = d
                self._watch(rid, d)
        elif a == "ConnectOK":
            self.net.pending_attempts()[0].accept()
            self.mid = None
        elif a == "ConnectFail":
            self.net.pending_attempts()[0].refuse()
        elif a == "Timer":
            self.tfired = self.clock.fire_next()
        elif a == "Frame":
            self._tr().deliver(self.frame(rid, x))
        elif a == "Partial":
            self._tr().deliver(self.frame(rid, 0)[:6])
            self.mid = rid
        elif a == "Rest":
            self.mid = None
            self._tr().deliver(self.frame(rid, x)[6:])
        elif a == "BadLen":
            self._tr().deliver(struct.pack(">I", 0x80000000))
        elif a == "ConnLost":
            self._tr().drop()
            self.mid = None
        elif a == "Cancel":
            self.ds[rid].cancel()
        elif a == "Disconnect":
            self.bc.disconnect()
        elif a == "Close":
            self.closed = True
            self.net.win_on_cancel = bool(x)
            try:
                dd = self.bc.close()
            finally:
                self.net.win_on_cancel = False
            if x:
                self.mid = None

            def _down(r):
                self.down_fired = True
                return r

            dd.addBoth(_down)
        elif a == "Arm":
            self.net.sync_next = x
        elif a == "Readdress":
            h, p = _addr(x)
            self.bc.updateMetadata(self.BrokerMetadata(1, h, p))
        else:
            raise ValueError("unknown event %r" % (a,))

    def step(self, e):
        a, rid, x = e["a"], e["id"], e["x"]
        cb = e.get("cb") or self.NOCB
        if not self.possible(e):
            self.trace.append({"e": {"a": "Unexecutable", "id": rid, "x": x, "cb": self.NOCB}, "o": {}, "was": e})
            return False
        self.fired = []
        self.net.drain_log()
        mark = self.clock.mark()
        self.tfired = ()
        down0 = self.down_fired
        self.raised = False
        exc = ""
        if cb["a"] != "none":
            self.cbs[rid] = cb
        try:
            self._act(a, rid, x)
        except Exception as ex:  # escaped into what would be the reactor
            exc = type(ex).__name__
        self.cbs.pop(rid, None)
        if self.cb_exc and not exc:
            exc = "callback:" + self.cb_exc
        self.cb_exc = ""
        lg = self.net.drain_log()
        connects = [r for r in lg if r[0] == "connect"]
        connect = 0
        if len(connects) == 1:
            connect = int(connects[0][2][1:])
        elif len(connects) > 1:
            connect = -len(connects)
        wrote = []
        for tr in self.net.transports:
            for fr in tr.take_frames():
                wrote.append(struct.unpack(">i", fr[4:8])[0] if len(fr) >= 8 else -1)
        new, ncanc = self.clock.since(mark, self.tfired)
        timer = 0
        if len(new) == 1:
            timer = new[0]
        elif len(new) > 1:
            timer = -len(new)
        o = {
            "fired": self.fired,
            "wrote": wrote,
            "connect": connect,
            "ccancel": any(r[0] == "ccancel" for r in lg),
            "timer": timer,
            "tcancel": ncanc > 0,
            "lose": any(r[0] == "lose" for r in lg),
            "down": self.down_fired and not down0,
            "raised": self.raised,
            "exc": exc,
            "nconn": len(self.net.transports),
        }
        self.trace.append({"e": {"a": a, "id": rid, "x": x, "cb": cb}, "o": o})
        return True


def execute(events):
    """Run a list of events; returns the recorded trace (list of {e, o})."""
    run = ConnRun()
    for e in events:
        if not run.step(e):
            break
    return run.trace


def random_schedule_run(seed, length, max_ids=8):
    """Seeded random scheduler: at each step enumerate what the real harness state permits
    and draw one event."""
    rng = random.Random(seed)
    run = ConnRun()
    next_id = 1
    serial = 0
    nocb = ConnRun.NOCB
    for _ in range(length):
        pend = [i for i in run.ds if i not in run.done]
        cands = []

        def add(w, a, i=0, x=0, cb=None):
            e = {"a": a, "id": i, "x": x, "cb": cb or nocb}
            if run.possible(e):
                cands.append((w, e))

        def some_cb(target):
            """what the application's callback on request `target` does re-entrantly"""
            r = rng.random()
            others = [i for i in pend if i != target]
            if r < 0.2:
                return {"a": "Close", "id": 0, "x": 0}
            if r < 0.4:
                return {"a": "Disconnect", "id": 0, "x": 0}
            if r < 0.7 and others:
                return {"a": "Cancel", "id": rng.choice(others), "x": 0}
            if next_id <= max_ids:
                return {"a": "MakeRequest", "id": next_id, "x": 1 if rng.random() < 0.8 else 0}
            return None

        if next_id <= max_ids:
            add(6, "MakeRequest", next_id, 1 if rng.random() < 0.8 else 0)
        if pend and rng.random() < 0.2:
            add(1, "MakeRequest", rng.choice(pend), 1)
        add(6, "ConnectOK")
        add(3, "ConnectFail")
        add(5, "Timer")
        serial += 1
        if pend:
            j = rng.choice(pend)
            add(8, "Frame", j, serial)
            add(2.5, "Frame", j, serial, some_cb(j))
            add(2, "Partial", rng.choice(pend), 0)
        if run.done:
            add(1, "Frame", rng.choice(sorted(run.done)), serial)
        add(1, "Frame", 1000 + rng.randrange(3), serial)
        if run.mid is not None:
            add(6, "Rest", run.mid, serial)
            if run.mid in pend:
                add(2, "Rest", run.mid, serial, some_cb(run.mid))
        add(0.5, "BadLen")
        add(3, "ConnLost")
        if pend:
            j = rng.choice(pend)
            add(3, "Cancel", j)
            add(1, "Cancel", j, 0, some_cb(j))
        add(1, "Disconnect")
        add(0.4, "Close")
        add(0.4, "Close", 0, 1)
        add(0.7, "Arm", 0, rng.choice([1, 2]))
        if len(pend) >= 2:
            i_, j_ = rng.sample(pend, 2)
            add(0.4, "Close", i_, 0, {"a": "Cancel", "id": j_, "x": 0})
        add(0.5, "Readdress", 0, rng.choice([1, 2]))
        if not cands:
            break
        tot = sum(w for w, _ in cands)
        r = rng.random() * tot
        for w, e in cands:
            r -= w
            if r <= 0:
                break
        if e["a"] == "MakeRequest" and e["id"] == next_id:
            next_id += 1
        if e["cb"]["a"] == "MakeRequest":
            next_id = max(next_id, e["cb"]["id"] + 1)
        run.step(e)
    return run.trace
