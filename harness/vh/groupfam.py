"""Scenario family `group`: the real afkak ConsumerGroup (Coordinator state machine) over a scripted client
and scripted partition consumers.  Events are those of spec/Group.tla.

The client is the member's environment here: each of its calls (coordinator lookup, topic metadata, join, partition
lookup by the leader, sync, heartbeat, leave) is recorded as an observable action and answered when the schedule
says so.  Partition consumers are stand-ins that record start / shutdown / stop with the generation and member
id they were created with; the real Consumer's own contract (stop, shutdown, commits) is C13's / C03's subject.
"""
import random
import sys

from twisted.internet import defer
from twisted.python import failure

from . import kwire, sim

TOPIC = "t"
MEMBERS = {"": 0, "m1": 1, "m2": 2}
MEMBER_NAMES = {v: k for k, v in MEMBERS.items()}

CONFIGS = [
    {"name": "default", "hb_ms": 5000, "initial_ms": 1000, "retry_ms": 100, "fatal_ms": 10000},
    # the consumer of partition 0 fails its shutdown() by raising synchronously (added after seeded change C16-m5)
    {"name": "shutdown-raises", "hb_ms": 5000, "initial_ms": 1000, "retry_ms": 100, "fatal_ms": 10000, "sync_raise": [0]},
]


def cfg_constants(cfg):
    return [], ["  InitialBackoff = %d" % (cfg["initial_ms"] * 1000), "  RetryBackoff = %d" % (cfg["retry_ms"] * 1000),
                "  FatalBackoff = %d" % (cfg["fatal_ms"] * 1000),
                "  SyncRaise = {%s}" % ", ".join(str(p) for p in cfg.get("sync_raise", []))]


def mk_failure(kind):
    from afkak import common as C
    exc = {
        "rebalance": C.RebalanceInProgress, "notcoord": C.NotCoordinatorForConsumerError, "notavail": C.CoordinatorNotAvailable,
        "illegal": C.IllegalGeneration, "unknown": C.UnknownMemberId, "inconsistent": C.InconsistentGroupProtocol,
        "timeout": C.RequestTimedOutError, "kafka": C.KafkaUnavailableError, "other": ValueError,
    }[kind]
    return failure.Failure(exc("scripted %s" % kind))


class FakeConsumer:
    """what ConsumerGroup needs of afkak.Consumer"""
    fam = None

    def __init__(self, client, topic, partition, processor, consumer_group=None, commit_consumer_id=None,
                 commit_generation_id=None, **kw):
        self.partition = partition
        self.member = commit_consumer_id
        self.generation = commit_generation_id
        self._start_d = None
        self._shutdown_d = None
        self.fam.made.append(self)

    def start(self, offset):
        from afkak.common import OFFSET_COMMITTED
        self._start_d = d = defer.Deferred()
        self.fam.act(["cstart", self.partition, -1 if self.generation is None else self.generation, MEMBERS.get(self.member, 9),
                      1 if offset == OFFSET_COMMITTED else 0])
        return d

    def shutdown(self):
        from afkak.common import RestopError
        self.fam.act(["cshut", self.partition])
        if self._start_d is None:
            return defer.fail(RestopError("not running"))
        if self.partition in self.fam.cfg.get("sync_raise", ()):
            raise RuntimeError("scripted: shutdown() raises")
        self._shutdown_d = defer.Deferred()
        return self._shutdown_d

    def stop(self):
        from afkak.common import RestopError
        if self._start_d is None:
            raise RestopError("not running")
        self.fam.act(["cstop", self.partition])
        d, self._start_d = self._start_d, None
        if not d.called:
            d.callback(0)
        if self._shutdown_d is not None and not self._shutdown_d.called:
            sd, self._shutdown_d = self._shutdown_d, None
            sd.errback(failure.Failure(defer.CancelledError()))

    # -- environment side
    def finish_shutdown(self, ok):
        sd, self._shutdown_d = self._shutdown_d, None
        d, self._start_d = self._start_d, None
        if d is not None and not d.called:
            d.callback(0)
        if ok:
            sd.callback(0)
        else:
            sd.errback(mk_failure("illegal"))


class ScriptedGroupClient:
    def __init__(self, clock, fam):
        self.reactor = clock
        self.fam = fam
        self.pending = {}

    def _new(self, kind):
        old = self.pending.get(kind)
        if old is not None and not old.called:
            self.fam.act(["overlap", kind])
        d = defer.Deferred()
        self.pending[kind] = d
        return d

    def _get_coordinator_for_group(self, group):
        self.fam.act(["coord"])
        return self._new("coord")

    def load_metadata_for_topics(self, *topics):
        self.fam.act(["meta"])
        return self._new("meta")

    def _load_topic_partitions(self, *topics):
        self.fam.act(["parts"])
        return self._new("parts")

    def reset_consumer_group_metadata(self, *groups):
        self.fam.act(["reset"])

    def _send_request_to_coordinator(self, group, payload, encoder_fn, decode_fn, min_timeout=None):
        name = type(payload).__name__
        if name == "_JoinGroupRequest":
            self.fam.act(["join", MEMBERS.get(payload.member_id, 9)])
            return self._new("join")
        if name == "_SyncGroupRequest":
            parts = []
            for m in payload.group_assignment:
                parts += [p for t, ps in kwire.parse_assignment(m.member_metadata)["assignment"] for p in ps]
            self.fam.act(["sync", payload.generation_id, MEMBERS.get(payload.member_id, 9), len(payload.group_assignment), sorted(parts)])
            return self._new("sync")
        if name == "_HeartbeatRequest":
            self.fam.act(["hb", -1 if payload.generation_id is None else payload.generation_id, MEMBERS.get(payload.member_id, 9)])
            return self._new("hb")
        if name == "_LeaveGroupRequest":
            self.fam.act(["leave", MEMBERS.get(payload.member_id, 9)])
            return self._new("leave")
        raise ValueError(name)


class GroupRun:
    def __init__(self, cfg):
        import afkak._group as G

        self.cfg = cfg
        self.G = G
        self._orig_consumer = G.Consumer
        G.Consumer = FakeConsumer
        FakeConsumer.fam = self
        self.clock = sim.SimClock()
        self.acts = []
        self.steps = []
        self.made = []
        self.timer_tags = {}
        self._wrap_clock()
        self.client = ScriptedGroupClient(self.clock, self)
        self.group = G.ConsumerGroup(self.client, "g", [TOPIC], lambda c, m: None,
                                     heartbeat_interval_ms=cfg["hb_ms"], initial_backoff_ms=cfg["initial_ms"],
                                     retry_backoff_ms=cfg["retry_ms"], fatal_backoff_ms=cfg["fatal_ms"])
        self.start_d = None
        self.stop_d = None

    def restore(self):
        self.G.Consumer = self._orig_consumer

    def act(self, a):
        self.acts.append(a)

    def _wrap_clock(self):
        orig = self.clock.callLater

        def call_later(delay, fn, *a, **kw):
            f = sys._getframe(1)
            name = f.f_code.co_name
            tag = None
            if getattr(fn, "__name__", "") == "join_and_sync":
                tag = ("rejoin",)
                self.act(["timer", int(round(delay * 1e6))])
            elif name in ("_scheduleFrom", "_reschedule"):
                tag = ("hb",)
            dc = orig(delay, fn, *a, **kw)
            self.timer_tags[id(dc)] = tag
            return dc
        self.clock.callLater = call_later

    def _timers(self, tag):
        return [dc for dc in self.clock.getDelayedCalls() if self.timer_tags.get(id(dc)) == tag]

    def _pend(self, kind):
        d = self.client.pending.get(kind)
        return d if d is not None and not d.called else None

    def running(self):
        return [c for c in self.made if c._start_d is not None]

    def closing(self):
        return [c for c in self.made if c._shutdown_d is not None and not c._shutdown_d.called]

    def possible(self, e):
        a = e["a"]
        g = self.group
        if a == "Start":
            return g._start_d is None and self.stop_d is None and not self.steps_started()
        if a == "Stop":
            return g._start_d is not None and not g._stopping and self.stop_d is None
        if a in ("CoordDone", "CoordErr"):
            return self._pend("coord") is not None
        if a in ("MetaDone", "MetaErr"):
            return self._pend("meta") is not None
        if a in ("JoinDone", "JoinErr"):
            return self._pend("join") is not None
        if a in ("PartsDone", "PartsErr"):
            return self._pend("parts") is not None
        if a in ("SyncDone", "SyncErr"):
            return self._pend("sync") is not None
        if a in ("HbDone", "HbErr"):
            return self._pend("hb") is not None
        if a in ("LeaveDone", "LeaveErr"):
            return self._pend("leave") is not None
        if a == "HbTick":
            return bool(self._timers(("hb",)))
        if a == "RejoinFire":
            return bool(self._timers(("rejoin",)))
        if a == "CShut":
            return any(c.partition == e["x"] for c in self.closing())
        if a == "CErr":
            return any(c.partition == e["x"] and not c._start_d.called for c in self.running()) \
                and not any(c.partition == e["x"] for c in self.closing())
        return False

    def steps_started(self):
        return any(s["e"]["a"] == "Start" for s in self.steps)

    def _fire(self, dc):
        fn, args, kw = dc.func, dc.args, dc.kw
        dc.cancel()
        fn(*args, **kw)

    def _fire_looper(self, dc):
        # a LoopingCall's pending call is its own __call__: run it through the clock so that it reschedules itself
        self.clock.advance(max(0.0, dc.getTime() - self.clock.seconds()))

    def step(self, e):
        a, x, k, w = e["a"], e["x"], e.get("k", ""), e.get("w", [])
        if not self.possible(e):
            self.steps.append({"e": dict(e, a="Unexecutable"), "o": self._obs([], ""), "was": e})
            return False
        self.acts = []
        exc = ""
        g = self.group
        P = self._pend
        try:
            if a == "Start":
                self.start_d = g.start()
                self.start_d.addCallbacks(lambda r: self.act(["fire", "start", "ok"]), lambda f: self.act(["fire", "start", "fail"]))
            elif a == "Stop":
                self.stop_d = g.stop()
                self.stop_d.addCallbacks(lambda r: self.act(["fire", "stop", "ok"]), lambda f: self.act(["fire", "stop", "fail"]))
            elif a == "CoordDone":
                P("coord").callback(("broker",) if x else None)
            elif a == "MetaDone":
                P("meta").callback(None)
            elif a == "PartsDone":
                P("parts").callback({TOPIC: list(range(x))})
            elif a == "JoinDone":
                from afkak.common import _JoinGroupResponse, _JoinGroupResponseMember
                me = MEMBER_NAMES[w[0]]
                leader = me if k == "leader" else "other"
                meta = kwire.enc_subscription([TOPIC])
                members = [_JoinGroupResponseMember(me, meta), _JoinGroupResponseMember("other", meta)] if k == "leader" else []
                P("join").callback(_JoinGroupResponse(0, x, "consumer", leader, me, members))
            elif a == "SyncDone":
                from afkak.common import _SyncGroupResponse
                P("sync").callback(_SyncGroupResponse(0, kwire.enc_assignment([(TOPIC, list(w))] if w else [])))
            elif a == "HbDone":
                P("hb").callback(True)
            elif a == "LeaveDone":
                P("leave").callback(True)
            elif a in ("CoordErr", "MetaErr", "JoinErr", "PartsErr", "SyncErr", "HbErr", "LeaveErr"):
                P({"CoordErr": "coord", "MetaErr": "meta", "JoinErr": "join", "PartsErr": "parts", "SyncErr": "sync",
                   "HbErr": "hb", "LeaveErr": "leave"}[a]).errback(mk_failure(k))
            elif a == "HbTick":
                self._fire(self._timers(("hb",))[0])
            elif a == "RejoinFire":
                self._fire(sorted(self._timers(("rejoin",)), key=lambda d: d.getTime())[0])
            elif a == "CShut":
                [c for c in self.closing() if c.partition == x][0].finish_shutdown(k == "ok")
            elif a == "CErr":
                c = [c for c in self.running() if c.partition == x][0]
                d = c._start_d
                d.errback(mk_failure(k))
            else:
                raise ValueError(a)
        except Exception as ex:
            exc = "%s: %s" % (type(ex).__name__, ex)
        self.steps.append({"e": {"a": a, "x": x, "k": k, "w": list(w)}, "o": self._obs(self.acts, exc)})
        return True

    def _obs(self, acts, exc):
        g = self.group
        return {"acts": acts, "exc": exc,
                "rejoin_timers": len(self._timers(("rejoin",))), "hb_timer": len(self._timers(("hb",))),
                "running": sorted(c.partition for c in self.running()),
                "outstanding": sorted(k for k in self.client.pending if self._pend(k) is not None),
                "closing": sorted(c.partition for c in self.closing())}

    def result(self):
        return {"cfg": self.cfg["name"], "steps": self.steps}


def execute(cfg, events):
    run = GroupRun(cfg)
    try:
        for e in events:
            if not run.step(e):
                break
        return run.result()
    finally:
        run.restore()


ERR_JOIN = ["rebalance", "notcoord", "illegal", "unknown", "inconsistent", "timeout", "kafka", "other"]


def random_run(cfg, seed, length):
    rng = random.Random(seed)
    run = GroupRun(cfg)
    gen = 0
    try:
        for _ in range(length):
            cands = []

            def add(w, a, x=0, k="", win=None):
                e = {"a": a, "x": x, "k": k, "w": win or []}
                if run.possible(e):
                    cands.append((w, e))
            add(10, "Start")
            add(0.4, "Stop")
            add(8, "CoordDone", 1)
            add(1, "CoordDone", 0)
            add(1.5, "CoordErr", 0, rng.choice(["notavail", "timeout", "kafka", "other"]))
            add(8, "MetaDone")
            add(1.2, "MetaErr", 0, rng.choice(["kafka", "kafka", "other"]))
            add(8, "JoinDone", gen + 1, rng.choice(["leader", "follower"]), [rng.choice([1, 1, 2])])
            add(2, "JoinErr", 0, rng.choice(ERR_JOIN))
            add(8, "PartsDone", rng.choice([2, 2, 3]))
            add(1.2, "PartsErr", 0, rng.choice(["kafka", "other"]))
            add(8, "SyncDone", 0, "", rng.choice([[], [0], [1], [0, 1], [0, 1]]))
            add(2, "SyncErr", 0, rng.choice(ERR_JOIN))
            add(4, "HbTick")
            add(6, "HbDone")
            add(3, "HbErr", 0, rng.choice(ERR_JOIN))
            add(5, "RejoinFire")
            add(6, "LeaveDone")
            add(2, "LeaveErr", 0, rng.choice(["kafka", "other"]))
            for p in (0, 1):
                add(5, "CShut", p, rng.choice(["ok", "ok", "fail"]))
                add(0.8, "CErr", p, rng.choice(["illegal", "unknown", "rebalance", "kafka", "other"]))
            if not cands:
                break
            tot = sum(w for w, _ in cands)
            r = rng.random() * tot
            for w, e in cands:
                r -= w
                if r <= 0:
                    break
            if e["a"] == "JoinDone":
                gen += 1
            run.step(e)
        return run.result()
    finally:
        run.restore()
