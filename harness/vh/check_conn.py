"""Checks C06 and C10: BrokerConn.tla + Framing.tla against the real _KafkaBrokerClient,
KafkaProtocol and KafkaBootstrapProtocol."""
import json
import random

from . import conn, framing, tlc
from .report import run_check

DEFS = ["PolicyDef == <<%s>>" % ", ".join(map(str, conn.POLICY_US))]


def design_cfg(depth, ids="{1, 2, 3}", invariants=True):
    lines = ["SPECIFICATION Spec", "CONSTANTS", "  Ids = %s" % ids, "  Foreign = 9", "  Policy <- PolicyDef",
             "  Addrs = {1, 2}", "  MaxConn = 2", "  MaxFail = 2", "  MaxDepth = %d" % depth,
             "CONSTRAINT Bound", "CHECK_DEADLOCK FALSE"]
    if invariants:
        lines += ["INVARIANT %s" % i for i in (
            "TypeOK", "C06_once", "C06_once_done", "C06_own", "C06_foreign_inert", "C06_length_limit",
            "C10_once_per_conn", "C10_resend_set", "C10_no_resend", "C10_reconnect_iff",
            "C10_reopen_on_request", "C10_backoff", "C10_close")]
    return lines


def trace_cfg(max_id, max_conn):
    return ["SPECIFICATION TSpec", "CONSTANTS", "  Ids = {%s}" % ", ".join(map(str, range(1, max_id + 1))),
            "  Foreign = 0", "  Policy <- PolicyDef", "  Addrs = {1, 2}", "  MaxConn = %d" % max_conn,
            "  MaxFail = 0", "  MaxDepth = 0", "CONSTRAINT Report", "CHECK_DEADLOCK FALSE"]


FR_DEFS = ["Fr == {<<1, 0>>, <<2, 1>>, <<0, 0>>}",
           "StreamsDef == {<<a>> : a \\in Fr} \\cup {<<a, b>> : a \\in Fr, b \\in Fr}"]


def framing_cfg(mode, invariants=True):
    lines = ["SPECIFICATION Spec", "CONSTANTS", "  Streams <- StreamsDef", '  Mode = "%s"' % mode,
             "  ReqIds = {1, 2}", "CHECK_DEADLOCK FALSE"]
    if invariants:
        lines += ["INVARIANT %s" % i for i in ("C06_reassembly", "C06_length_limit", "C06_boot_once",
                                               "C06_boot_own", "C06_boot_lost")]
    return lines


def framing_trace_cfg(mode):
    return ["SPECIFICATION TSpec", "CONSTANTS", "  Streams = {}", '  Mode = "%s"' % mode,
            "  ReqIds = {1, 2, 3, 4}", "CONSTRAINT Report", "CHECK_DEADLOCK FALSE"]


def conn_sig(trace, line):
    """Signature of a violating step: the event kind and the kinds of the two events before it."""
    evs = [r["e"]["a"] for r in trace[max(0, line - 3):line]]
    cb = trace[line - 1]["e"].get("cb", {}).get("a", "none")
    return ">".join(evs) + ("+cb:" + cb if cb != "none" else "")


def judge(chk, prop, family, traces, results, steps_of, sig_of, sources, alias=None):
    """Turn TLC's per-trace results into verdicts for `prop`.  `alias(clause, step)` may re-attribute a
    clause of the family's own properties to `prop` (e.g. a broker client's close is also part of C20)."""
    for i, (tr, res) in enumerate(zip(traces, results)):
        steps = steps_of(tr)
        viol = res["viol"]
        real = [(c, l) for (c, l) in viol if not c.startswith("ENV.")]
        env = [(c, l) for (c, l) in viol if c.startswith("ENV.")]
        diverged = None
        for c, l in env:
            if c == "ENV.impossible" and not [x for x in real if x[1] < l] and not [d for d in res["drift"] if d[1] < l] \
                    and not [x for x in env if x[0] == "ENV.exception" and x[1] < l]:
                # The schedule was drawn from what the REAL objects allowed (a pending timer, an outstanding call) or,
                # for TLC-generated schedules, could not be executed at this step: the implementation is in a state
                # the specification does not have, without any observable difference before.  On the unchanged tree
                # this does not occur; it is reported against the property under check.
                diverged = l
        first = {}
        for c, l in sorted(real, key=lambda x: x[1]):
            first.setdefault(c, l)
        exc = [l for (c, l) in env if c == "ENV.exception"]
        if exc and not real:
            first["%s.exception" % prop] = min(exc)
        if diverged is not None:
            first["%s.left_the_model" % prop] = diverged
        for c, l in list(first.items()):
            if alias is not None:
                c2 = alias(c, steps[l - 1])
                if c2:
                    first[c2] = min(l, first.get(c2, l))
        for c, l in first.items():
            chk.count(c)
            if not c.startswith(prop + "."):
                continue
            chk.violation(c, sig_of(steps, l),
                          "%s: clause %s fails at event %d (%s) of a %s schedule" %
                          (family, c, l, json.dumps(steps[l - 1]["e"]), sources[i]),
                          {"family": family, "source": sources[i], "line": l, "trace": tr})
        if res["drift"] and not real:
            chk.add_drift(len(res["drift"]), {"family": family, "trace": i, "at": res["drift"][0]})


def run_conn(chk, prop, tier, seed, alias=None):
    rng = random.Random(seed)
    thorough = tier == "thorough"
    # (a) design model, exhaustive within bounds
    wd = tlc.workdir("%s-%s-conn" % (prop, tier))
    depth = 10 if thorough else 8
    res = tlc.model_check(wd, "MC_BrokerConn", "BrokerConn", DEFS, design_cfg(depth)).check()
    chk.add_model("BrokerConn", res, {"Ids": 3, "Foreign": 1, "MaxConn": 2, "MaxFail": 2, "MaxDepth": depth},
                  "all interleavings of requests, connect results, frames (own/foreign/partial/oversize), drops, "
                  "cancels, disconnect, close, re-address")
    # (b) spec -> code: behaviours of the model replayed on the real objects
    gdepth = 6 if thorough else 5
    gres, g = tlc.dump_graph(wd, "MC_graph", "BrokerConn", DEFS, design_cfg(gdepth, invariants=False))
    paths = g.edge_cover(rng, max_len=14)
    kinds = {}
    for n in g.nodes.values():
        kinds[n["ev"]["a"]] = kinds.get(n["ev"]["a"], 0) + 1
    missing = [k for k in ("MakeRequest", "ConnectOK", "ConnectFail", "Timer", "Frame", "Partial", "Rest", "BadLen",
                           "ConnLost", "Cancel", "Disconnect", "Close", "Readdress", "Arm") if not kinds.get(k)]
    if missing:
        raise tlc.MachineryError("vacuity: events never taken in the design model: %s" % missing)
    chk.extra["graph"] = {"nodes": len(g.nodes), "edges": g.nedges, "paths_in_edge_cover": len(paths),
                          "depth": gdepth, "event_kinds": kinds}
    traces, sources = [], []
    for p in paths:
        traces.append(conn.execute(g.events(p)))
        sources.append("TLC edge-cover")
    nsim = 3000 if thorough else 300
    for evs in tlc.simulate(wd, "MC_sim", "BrokerConn", DEFS, design_cfg(30, "{1, 2, 3, 4, 5}", invariants=False)[:-2]
                            + ["CHECK_DEADLOCK FALSE"], nsim, 24, seed + 1):
        traces.append(conn.execute([e["ev"] for e in evs]))
        sources.append("TLC -simulate")
    # (c) beyond the bounds: seeded random scheduler on the real harness state
    nrand = 6000 if thorough else 700
    for k in range(nrand):
        traces.append(conn.random_schedule_run(seed * 1000003 + k, 60 if thorough else 45, max_ids=10))
        sources.append("random seed=%d" % (seed * 1000003 + k))
    max_conn = max([max([r["o"].get("nconn", 0) for r in t] + [0]) for t in traces] + [1]) + 1
    results, tstates = tlc.validate_traces(wd, "BrokerConn_Trace", traces, DEFS, trace_cfg(10, max_conn))
    chk.add_traces(len(traces), sum(len(t) for t in traces))
    chk.sample({"family": "conn", "source": sources[0], "trace": traces[0][:8]})
    chk.sample({"family": "conn", "source": sources[-1], "trace": traces[-1][:10]})
    judge(chk, prop, "conn", traces, results, lambda t: t, conn_sig, sources, alias=alias)


def run_framing(chk, prop, tier, seed):
    rng = random.Random(seed + 7)
    thorough = tier == "thorough"
    for mode in ("proto", "boot"):
        wd = tlc.workdir("%s-%s-framing-%s" % (prop, tier, mode))
        res = tlc.model_check(wd, "MC_Framing", "Framing", FR_DEFS, framing_cfg(mode)).check()
        chk.add_model("Framing[%s]" % mode, res, {"streams": "all sequences of <=2 frames over {ok, ok+1 byte, oversize}",
                                                  "ReqIds": 2}, "every chunking of every stream")
        gres, g = tlc.dump_graph(wd, "MC_graph", "Framing", FR_DEFS, framing_cfg(mode, invariants=False))
        paths = g.edge_cover(rng)
        if not thorough:
            rng.shuffle(paths)
            paths = paths[:2500]
        traces = [framing.execute(g.init_state(p)["stream"], mode, g.events(p)) for p in paths]
        sources = ["TLC edge-cover"] * len(traces)
        nrand = 4000 if thorough else 500
        for k in range(nrand):
            traces.append(framing.random_run(seed * 7919 + k, mode))
            sources.append("random seed=%d" % (seed * 7919 + k))
        results, _ = tlc.validate_traces(wd, "Framing_Trace", traces, [], framing_trace_cfg(mode))
        chk.add_traces(len(traces), sum(len(t["steps"]) for t in traces))
        chk.sample({"family": "framing/" + mode, "source": sources[-1], "trace": traces[-1]})
        judge(chk, prop, "framing/" + mode, traces, results, lambda t: t["steps"],
              lambda steps, l: "%s:%s" % (steps[l - 1]["e"]["a"], "lose" if steps[l - 1]["o"].get("lose") else "-"),
              sources)


def replay(prop, path):
    with open(path) as f:
        rp = json.load(f)
    fam = rp["family"]
    if fam == "conn":
        tr = conn.execute([r.get("was", r["e"]) for r in rp["trace"]])
        wd = tlc.workdir("replay-%s" % prop)
        results, _ = tlc.validate_traces(wd, "BrokerConn_Trace", [tr], DEFS, trace_cfg(10, 60), workers=1)
    else:
        mode = fam.split("/")[1]
        tr = framing.execute(rp["trace"]["st"], mode, [r.get("was", r["e"]) for r in rp["trace"]["steps"]])
        wd = tlc.workdir("replay-%s" % prop)
        results, _ = tlc.validate_traces(wd, "Framing_Trace", [tr], [], framing_trace_cfg(mode), workers=1)
    print(json.dumps({"trace": tr, "result": results[0]}, indent=1))
    bad = [c for c, _ in results[0]["viol"] if c.startswith(prop + ".")]
    if bad:
        print("VIOLATION property=%s replay=%s" % (prop, path))
        raise SystemExit(1)
    raise SystemExit(0)


def main(prop, tier, seed, replay_file):
    if replay_file:
        replay(prop, replay_file)

    def body(chk):
        chk.assumptions += [
            "the simulated transport stops delivering bytes once the client called loseConnection (as Twisted's TCP transport does)",
            "correlation ids are not re-used while a request with that id is outstanding (the API's stated contract)",
            "design-model bounds: 3 ids + 1 foreign id, <=2 connections, <=2 consecutive failures; beyond them only sampled executions",
        ]
        run_conn(chk, prop, tier, seed)
        if prop == "C06":
            run_framing(chk, prop, tier, seed)

    run_check(prop, tier, seed, body)
