"""Thin wrapper around TLC: model checking, state-graph dumps, simulation and batch
trace validation.  Nothing here knows about afkak."""
import json
import os
import re
import shutil
import subprocess
import time

from . import tlaval

VERIF = os.path.dirname(os.path.dirname(os.path.dirname(os.path.abspath(__file__))))
SPEC_DIR = os.path.join(VERIF, "spec")
BUILD = os.path.join(VERIF, "build")
JAR = "/opt/veriftools/tla/tla2tools.jar"
CM = "/opt/veriftools/tla/CommunityModules-deps.jar"


class MachineryError(Exception):
    """TLC crashed / produced output we cannot interpret: exit status 2, never a verdict."""


def workdir(name):
    d = os.path.join(BUILD, name)
    shutil.rmtree(d, ignore_errors=True)
    os.makedirs(d)
    return d


def _java(extra_props=(), heap=None):
    cmd = ["java", "-XX:+UseParallelGC", "-Xss64m"]
    if heap:
        cmd.append("-Xmx%s" % heap)
    cmd.append("-DTLA-Library=%s" % SPEC_DIR)
    cmd.extend(extra_props)
    cmd.extend(["-cp", "%s:%s" % (JAR, CM), "tlc2.TLC"])
    return cmd


# TLC exit statuses that are verdicts on the model (0 none, 10 assumption, 11 deadlock, 12 safety, 13 liveness); every
# other status is an error of the run itself (evaluation error, unexpected exception inside TLC, ...)
_VERDICT_RC = (0, 10, 11, 12, 13)
RETRIES = []      # one record per TLC run that had to be repeated (reported in the evidence)


def describe(text, n=2500):
    """The part of a TLC output that says what went wrong: from the first 'Error:' on, and the end."""
    k = text.find("Error:")
    if k < 0:
        return text[-n:]
    head = text[k:k + n]
    return head if k + n >= len(text) - n else head + "\n...\n" + text[-n:]


def _run_once(main_tla, cfg_path, wd, workers, args, env, timeout, props, heap):
    cmd = _java(props, heap) + ["-workers", str(workers), "-metadir", os.path.join(wd, "md"),
                                "-noGenerateSpecTE", "-fp", "1", "-config", cfg_path] + list(args) + [main_tla]
    e = dict(os.environ)
    e.pop("JAVA_TOOL_OPTIONS", None)
    if env:
        e.update(env)
    t0 = time.time()
    try:
        p = subprocess.run(cmd, cwd=wd, env=e, stdout=subprocess.PIPE, stderr=subprocess.STDOUT,
                           timeout=timeout, text=True, errors="replace")
    except subprocess.TimeoutExpired as ex:
        subprocess.run(["pkill", "-f", "tlc2[.]TLC.*%s" % re.escape(wd)], check=False)
        shutil.rmtree(os.path.join(wd, "md"), ignore_errors=True)
        raise MachineryError("TLC timed out after %ss on %s" % (timeout, main_tla)) from ex
    # TLC's on-disk state (gigabytes for the larger searches) is of no use once it has finished
    shutil.rmtree(os.path.join(wd, "md"), ignore_errors=True)
    return p.returncode, p.stdout, time.time() - t0


def run(main_tla, cfg_path, wd, workers=16, args=(), env=None, timeout=3600, props=(), heap=None):
    """Run TLC; returns (returncode, stdout text, wall seconds).

    A run that ends in an error of the run itself -- not a verdict -- is repeated, once as it was and then with a single
    worker.  Evaluation is a function of the state and the search visits the same bounded state space whatever the number
    of workers, so an error of the specification or of the harness recurs in every attempt (and is then reported by the
    caller as a machinery failure, exit status 2); one that does not recur came from the workers' interleaving inside
    TLC.  Verdicts (statuses 0, 10-13) are never repeated.  Every failed attempt's complete output is kept under
    build/tlc-failures/."""
    plan = [workers, workers, 1] if workers != 1 else [1, 1]
    for attempt, w in enumerate(plan, 1):
        rc, text, wall = _run_once(main_tla, cfg_path, wd, w, args, env, timeout, props, heap)
        if rc in _VERDICT_RC:
            return rc, text, wall
        d = os.path.join(BUILD, "tlc-failures")
        os.makedirs(d, exist_ok=True)
        keep = os.path.join(d, "%s-%s-attempt%d.out" % (os.path.basename(wd.rstrip("/")), os.path.basename(main_tla), attempt))
        with open(keep, "w") as f:
            f.write(text)
        last = attempt == len(plan)
        RETRIES.append({"module": os.path.basename(main_tla), "workdir": os.path.basename(wd.rstrip("/")), "attempt": attempt,
                        "workers": w, "rc": rc, "output": keep, "error": describe(text, 600)})
        print("TLC-RETRY: %s attempt %d (%d workers) ended with status %s, not a verdict%s; output kept in %s\n%s"
              % (os.path.basename(main_tla), attempt, w, rc, "" if last else "; running it again", keep, describe(text, 1200)),
              flush=True)
    return rc, text, wall


_STATS = re.compile(r"(\d+) states generated, (\d+) distinct states found")
_DEPTH = re.compile(r"depth of the complete state graph search is (\d+)")


class MCResult:
    def __init__(self, rc, text, wall):
        self.rc, self.text, self.wall = rc, text, wall
        m = None
        for m in _STATS.finditer(text):
            pass
        self.generated = int(m.group(1)) if m else 0
        self.distinct = int(m.group(2)) if m else 0
        d = _DEPTH.search(text)
        self.depth = int(d.group(1)) if d else 0
        self.ok = rc == 0 and "No error has been found" in text
        self.violated = None
        mv = re.search(r"Invariant (\S+) is violated", text)
        if mv:
            self.violated = mv.group(1)
        mv = re.search(r"Action property (\S+) is violated", text)
        if mv:
            self.violated = mv.group(1)
        if re.search(r"Temporal propert(y \S+ was|ies were) violated", text):
            self.violated = self.violated or "temporal"

    def check(self):
        """A design-model failure is a machinery problem: the model is ours."""
        if not self.ok:
            raise MachineryError("design model check failed (rc=%s, violated=%s):\n%s"
                                 % (self.rc, self.violated, describe(self.text, 3000)))
        return self


def write_mc(wd, name, base, defs, cfg_lines):
    """Generate MC module `name` EXTENDing `base` with constant definitions and a cfg."""
    tla = os.path.join(wd, name + ".tla")
    with open(tla, "w") as f:
        f.write("---- MODULE %s ----\nEXTENDS %s\n%s\n====\n" % (name, base, "\n".join(defs)))
    cfg = os.path.join(wd, name + ".cfg")
    with open(cfg, "w") as f:
        f.write("\n".join(cfg_lines) + "\n")
    return tla, cfg


def model_check(wd, name, base, defs, cfg_lines, workers=16, args=(), timeout=3600, heap=None):
    tla, cfg = write_mc(wd, name, base, defs, cfg_lines)
    rc, text, wall = run(tla, cfg, wd, workers=workers, args=args, timeout=timeout, heap=heap)
    return MCResult(rc, text, wall)


# ---------------------------------------------------------------- state graph

_NODE = re.compile(r'^(-?\d+) \[label="((?:[^"\\]|\\.)*)"')
_EDGE = re.compile(r'^(-?\d+) -> (-?\d+) \[label="((?:[^"\\]|\\.)*)"')


def _unescape(s):
    return s.replace("\\n", "\n").replace('\\"', '"').replace("\\\\", "\\")


class Graph:
    """State graph dumped by TLC (-dump dot,actionlabels)."""

    def __init__(self, path, keep=("ev", "out"), init_keep=("s",)):
        self.nodes = {}      # id -> {var: value} restricted to `keep`
        self.succ = {}       # id -> [id]
        self.init = None
        self.inits = []      # every initial state (TLC fills their boxes)
        self.nedges = 0
        with open(path, errors="replace") as f:
            for line in f:
                m = _EDGE.match(line)
                if m:
                    a, b = int(m.group(1)), int(m.group(2))
                    if a != b or True:
                        self.succ.setdefault(a, []).append(b)
                        self.nedges += 1
                    continue
                m = _NODE.match(line)
                if m:
                    nid = int(m.group(1))
                    if nid in self.nodes:
                        continue
                    st = tlaval.parse_state(_unescape(m.group(2)))
                    isinit = "style = filled" in line
                    kk = tuple(keep) + (tuple(init_keep) if isinit else ())
                    self.nodes[nid] = {k: st[k] for k in kk if k in st}
                    if isinit:
                        self.inits.append(nid)
                        if self.init is None:
                            self.init = nid
        for k in self.succ:
            # deterministic order independent of TLC's worker interleaving
            self.succ[k] = sorted(set(self.succ[k]), key=lambda n: repr(tlaval.to_json(self.nodes[n].get("ev"))))

    def edge_cover(self, rng, max_len=None, limit=None):
        """Paths (lists of node ids, the first one an initial state) that
        together traverse every edge at least once.  Greedy: BFS tree to reach an edge's
        source, then keep walking along untraversed edges while there are any."""
        self.inits.sort(key=lambda n: repr(tlaval.to_json(self.nodes[n])))
        parent = {n: None for n in self.inits}
        order = list(self.inits)
        for n in order:
            for m in self.succ.get(n, ()):
                if m not in parent:
                    parent[m] = n
                    order.append(m)

        def path_to(n):
            """nodes from an initial state (inclusive) to n (inclusive)"""
            p = []
            while n is not None:
                p.append(n)
                n = parent[n]
            return p[::-1]

        todo = {(a, b) for a in order for b in self.succ.get(a, ()) if a != b or True}
        paths = []
        edges = sorted(todo, key=lambda e: (len(path_to(e[0])), e))
        for (a, b) in edges:
            if (a, b) not in todo:
                continue
            p = path_to(a)
            cur = a
            nxt = b
            while True:
                p.append(nxt)
                todo.discard((cur, nxt))
                cur = nxt
                if max_len and len(p) >= max_len:
                    break
                cand = [m for m in self.succ.get(cur, ()) if (cur, m) in todo]
                if not cand:
                    break
                nxt = cand[rng.randrange(len(cand))]
            paths.append(p)
            if limit and len(paths) >= limit:
                break
        return paths

    def all_paths(self, depth, limit=None):
        """Every path of exactly `depth` edges (or shorter if it dead-ends) from the initial state."""
        out = []
        stack = [(n, [n]) for n in self.inits]
        while stack:
            n, p = stack.pop()
            succ = self.succ.get(n, ())
            if len(p) == depth + 1 or not succ:
                if len(p) > 1:
                    out.append(p)
                    if limit and len(out) >= limit:
                        return out
                continue
            for m in succ:
                stack.append((m, p + [m]))
        return out

    def events(self, path):
        """events along a path (the first node is the initial state and carries none)"""
        return [tlaval.to_json(self.nodes[n]["ev"]) for n in path[1:]]

    def init_state(self, path):
        return tlaval.to_json(self.nodes[path[0]].get("s"))


def dump_graph(wd, name, base, defs, cfg_lines, workers=8, timeout=3600, keep=("ev",)):
    tla, cfg = write_mc(wd, name, base, defs, cfg_lines)
    dot = os.path.join(wd, name + ".dot")
    rc, text, wall = run(tla, cfg, wd, workers=workers, args=["-dump", "dot,actionlabels", dot], timeout=timeout)
    res = MCResult(rc, text, wall).check()
    g = Graph(dot, keep=keep)
    os.unlink(dot)
    return res, g


# ---------------------------------------------------------------- goal-directed schedules
_STATE_HDR = re.compile(r"^State (\d+): <", re.M)


def find_path(wd, name, base, defs, cfg_lines, goal, keep=("ev",), workers=16, timeout=1800):
    """Ask TLC for a shortest behaviour reaching a state where `goal` holds: the negated goal is
    checked as an invariant and the counterexample is the schedule.  Returns a list of events
    (None if the goal is unreachable within the configuration's bounds)."""
    gdefs = list(defs) + ["NotGoal == ~(%s)" % goal]
    tla, cfg = write_mc(wd, name, base, gdefs, list(cfg_lines) + ["INVARIANT NotGoal"])
    rc, text, wall = run(tla, cfg, wd, workers=workers, timeout=timeout)
    if "Invariant NotGoal is violated" not in text:
        if rc == 0:
            return None
        raise MachineryError("goal search failed (rc=%s):\n%s" % (rc, describe(text)))
    body = text[text.index("The behavior up to this point is:"):]
    hdrs = list(_STATE_HDR.finditer(body))
    evs = []
    for i, m in enumerate(hdrs):
        end = hdrs[i + 1].start() if i + 1 < len(hdrs) else len(body)
        blk = body[body.index("\n", m.start()) + 1:end]
        # the block ends at the first blank line
        blk = blk.split("\n\n")[0]
        st = tlaval.parse_state(blk)
        if i > 0:
            evs.append({k: tlaval.to_json(st[k]) for k in keep})
    return evs


def cached_goal_path(cache_file, spec_files, key, compute):
    """Goal paths are artefacts of the specification alone: keep them under /verif/schedules keyed by the
    hash of the spec files; recompute (and rewrite the cache) when a spec changed."""
    import hashlib
    h = hashlib.sha256()
    for f in spec_files:
        with open(os.path.join(SPEC_DIR, f), "rb") as fh:
            h.update(fh.read())
    digest = h.hexdigest()
    path = os.path.join(VERIF, "schedules", cache_file)
    data = {}
    if os.path.exists(path):
        with open(path) as fh:
            data = json.load(fh)
    if data.get("spec_sha256") != digest:
        data = {"spec_sha256": digest, "goals": {}}
    if key not in data["goals"]:
        data["goals"][key] = compute()
        os.makedirs(os.path.dirname(path), exist_ok=True)
        with open(path, "w") as fh:
            json.dump(data, fh, indent=1)
    return data["goals"][key]


# ---------------------------------------------------------------- simulation

_SIM_STATE = re.compile(r"^STATE_(\d+) ==\s*$")


def simulate(wd, name, base, defs, cfg_lines, num, depth, seed, keep=("ev",), timeout=1800):
    """Random behaviours of the design model (tlc -simulate); returns a list of event lists."""
    tla, cfg = write_mc(wd, name, base, defs, cfg_lines)
    sim = os.path.join(wd, "sim")
    os.makedirs(sim, exist_ok=True)
    rc, text, wall = run(tla, cfg, wd, workers=1,
                         args=["-simulate", "file=%s/tr,num=%d" % (sim, num), "-depth", str(depth),
                               "-seed", str(seed)], timeout=timeout)
    if rc != 0:
        raise MachineryError("tlc -simulate failed rc=%s:\n%s" % (rc, describe(text)))
    behaviours = []
    for fn in sorted(os.listdir(sim)):
        states = []
        cur = None
        with open(os.path.join(sim, fn)) as f:
            for line in f:
                if _SIM_STATE.match(line):
                    cur = []
                    states.append(cur)
                elif cur is not None:
                    if line.startswith("\\*") or line.startswith("====") or line.startswith("----"):
                        continue
                    cur.append(line)
        evs = []
        for st in states[1:]:
            d = tlaval.parse_state("".join(st))
            evs.append({k: tlaval.to_json(d[k]) for k in keep})
        if evs:
            behaviours.append(evs)
    shutil.rmtree(sim, ignore_errors=True)
    return behaviours


# ---------------------------------------------------------------- trace validation

def _balanced_after(text, start):
    """Return the substring starting at `start` (which must be '<<') up to its matching '>>'."""
    depth = 0
    i = start
    n = len(text)
    instr = False
    while i < n:
        c = text[i]
        if instr:
            if c == "\\":
                i += 2
                continue
            if c == '"':
                instr = False
        elif c == '"':
            instr = True
        elif text.startswith("<<", i):
            depth += 1
            i += 2
            continue
        elif text.startswith(">>", i):
            depth -= 1
            i += 2
            if depth == 0:
                return text[start:i]
            continue
        i += 1
    raise MachineryError("unbalanced RESULT tuple in TLC output")


_RESULT = re.compile(r'<<\s*"RESULT"')


def validate_traces(wd, trace_module, traces, defs, cfg_lines, timeout=3600, chunk=2000, workers=16):
    """Validate recorded traces with TLC.  `traces` is a list of lists of records.
    The trace module prints <<"RESULT", tid, consumed, viol, drift>> once per trace.
    Returns a list (same order) of dicts {consumed, viol: [(clause, line)], drift: [(field, line)]}."""
    results = [None] * len(traces)
    total_states = 0
    for base in range(0, len(traces), chunk):
        part = traces[base:base + chunk]
        sub = os.path.join(wd, "tv%d" % base)
        os.makedirs(sub, exist_ok=True)
        tf = os.path.join(sub, "traces.json")
        with open(tf, "w") as f:
            json.dump(part, f, separators=(",", ":"))
        name = "TV_%s" % trace_module
        tla, cfg = write_mc(sub, name, trace_module, defs, cfg_lines)
        rc, text, wall = run(tla, cfg, sub, workers=workers,
                             env={"TRACE_FILE": tf, "TRACE_DEBUG": os.environ.get("TRACE_DEBUG", "0")}, timeout=timeout)
        if rc != 0:
            k = text.find("Error:")
            raise MachineryError("trace validation failed to run (rc=%s):\n%s\n...\n%s" % (rc, text[max(0, k):k + 1500], text[-1500:]))
        m = None
        for m in _STATS.finditer(text):
            pass
        total_states += int(m.group(2)) if m else 0
        pos = 0
        while True:
            mm = _RESULT.search(text, pos)
            if not mm:
                break
            k = mm.start()
            tup = _balanced_after(text, k)
            pos = k + len(tup)
            v = tlaval.parse(tup)
            tid = v[1]
            new = {
                "consumed": v[2],
                "viol": sorted((x[0], x[1]) for x in v[3]),
                "drift": sorted((x[0], x[1]) for x in v[4]),
            }
            old = results[base + tid - 1]
            # a trace specification may branch where something was not logged: the trace is judged by its best explanation
            rank = lambda r: (len(r["viol"]), len(r["drift"]), -r["consumed"])
            if old is None or rank(new) < rank(old):
                results[base + tid - 1] = new
        shutil.rmtree(sub, ignore_errors=True)
    missing = [i for i, r in enumerate(results) if r is None]
    if missing:
        raise MachineryError("no RESULT for traces %s" % missing[:10])
    return results, total_states
