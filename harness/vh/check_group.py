"""Checks C16, C17: Group.tla against the real ConsumerGroup / Coordinator."""
import json
import random
import re
from multiprocessing import Pool

from . import groupfam, groupfull, tlc
from .check_conn import judge
from .report import run_check

GOALS = ["Goal_leader_again_more_partitions", "Goal_error_after_stale_timer", "Goal_stop_during_prepare", "Goal_evicted_as_leader", "Goal_consumer_error_during_join"]
INVS = ["C16_join_clean", "C16_start_current", "C16_evicted_stop", "C16_one_exchange", "C16_hb_stable", "C16_quiet_after_stop",
        "C17_never_idle", "C17_fatal_surfaces"]


def design_cfg(cfg, depth, inv=True, kf=False):
    defs, consts = groupfam.cfg_constants(cfg)
    lines = ["SPECIFICATION Spec", "CONSTANTS"] + consts + ["  KF_SwallowFatal = %s" % ("TRUE" if kf else "FALSE"), "  MaxDepth = %d" % depth, "CONSTRAINT Bound", "CHECK_DEADLOCK FALSE"]
    if inv:
        lines += ["INVARIANT %s" % i for i in INVS]
    return defs, lines


def trace_cfg(cfg):
    defs, consts = groupfam.cfg_constants(cfg)
    return defs, ["SPECIFICATION TSpec", "CONSTANTS"] + consts + ["  KF_SwallowFatal = TRUE", "  MaxDepth = 0", "CONSTRAINT Report", "CHECK_DEADLOCK FALSE"]


def _exec(args):
    import logging
    import warnings
    logging.disable(logging.CRITICAL)
    warnings.simplefilter("ignore")
    kind, cfg, payload = args
    if kind == "events":
        return groupfam.execute(cfg, payload)
    if kind == "full":
        return groupfull.random_run(payload[0], payload[1])
    if kind == "events-lenient":
        # the last event is an optional continuation: dropped when the implementation does not offer it
        t = groupfam.execute(cfg, payload)
        if t["steps"] and t["steps"][-1]["e"]["a"] == "Unexecutable" and len(t["steps"]) == len(payload):
            t["steps"].pop()
        return t
    return groupfam.random_run(cfg, payload[0], payload[1])


def gsig(steps, line):
    last = steps[line - 1]["e"]
    if last["k"] == "other" and last["a"] in ("CoordErr", "MetaErr", "PartsErr"):
        return "fatal-error-swallowed:" + last["a"]
    return ">".join((r["e"]["a"] + (":" + r["e"]["k"] if r["e"]["k"] else "")) for r in steps[max(0, line - 3):line])


def run_group(chk, prop, tier, seed, alias=None):
    thorough = tier == "thorough"
    rng = random.Random(seed)
    for ci, cfg in enumerate(groupfam.CONFIGS):
        wd = tlc.workdir("%s-%s-group-%d" % (prop, tier, ci))
        depth = 60 if thorough else 24
        defs, lines = design_cfg(cfg, depth)
        res = tlc.model_check(wd, "MC_Group", "Group", defs, lines, timeout=2400).check()
        chk.add_model("Group[%s]" % cfg["name"], res, dict(cfg, MaxDepth=depth),
                      "start, every reply/error kind on every request of the join protocol, heartbeat ticks and outcomes, delayed "
                      "rejoins, consumer shutdown outcomes and consumer errors, stop in every state")
        gdefs, glines = design_cfg(cfg, 8 if not thorough else 9, inv=False, kf=True)
        gres, g = tlc.dump_graph(wd, "MC_graph", "Group", gdefs, glines, workers=1, timeout=2400)
        paths = g.edge_cover(rng, max_len=14)
        cap = 4000 if thorough else 700
        if len(paths) > cap:
            rng.shuffle(paths)
            paths = paths[:cap]
        jobs = [("events", cfg, g.events(p)) for p in paths]
        sources = ["TLC edge-cover"] * len(jobs)
        for goal in GOALS:
            gwd = tlc.workdir("%s-%s-group-goal-%s" % (prop, tier, goal))
            gd, gl = design_cfg(cfg, 22, inv=False, kf=True)
            evs = tlc.find_path(gwd, "MC_goal", "Group", gd, gl, goal, timeout=900)
            chk.count("goal:%s:%s" % (goal, "reached" if evs else "unreachable"))
            if evs:
                base = [e["ev"] for e in evs]
                # the behaviour into the goal state, continued in a few different ways
                for tail in ([], [{"a": "RejoinFire", "x": 0, "k": "", "w": []}], [{"a": "HbTick", "x": 0, "k": "", "w": []}],
                             [{"a": "Stop", "x": 0, "k": "", "w": []}]):
                    jobs.append(("events-lenient", cfg, base + tail))
                    sources.append("TLC goal %s" % goal)
        sdefs, slines = design_cfg(cfg, 60, inv=False, kf=True)
        for evs in tlc.simulate(wd, "MC_sim", "Group", sdefs, slines, 2000 if thorough else 300, 30, seed + ci, timeout=1500):
            jobs.append(("events", cfg, [e["ev"] for e in evs]))
            sources.append("TLC -simulate")
        for k in range(5000 if thorough else 800):
            jobs.append(("random", cfg, (seed * 1000003 + k, 45)))
            sources.append("random seed=%d" % (seed * 1000003 + k))
        with Pool(14) as pool:
            traces = pool.map(_exec, jobs, chunksize=25)
        keep = [(t, s_) for t, s_ in zip(traces, sources) if t and t["steps"]]
        traces = [t for t, _ in keep]
        sources = [s_ for _, s_ in keep]
        tdefs, tlines = trace_cfg(cfg)
        results, _ = tlc.validate_traces(wd, "Group_Trace", traces, tdefs, tlines, timeout=1500)
        chk.add_traces(len(traces), sum(len(t["steps"]) for t in traces))
        chk.sample({"family": "group", "config": cfg["name"], "source": sources[-1], "trace": traces[-1]["steps"][:6]})
        judge(chk, prop, "group[%s]" % cfg["name"], traces, results, lambda t: t["steps"], gsig, sources, alias=alias)


def leader_partitions(chk, tier, seed):
    """C15, as seen through the member that leads: every partition its lookup reports is in the assignment it syncs"""
    def alias(clause, step):
        if clause == "C17.rejoin" and step["e"]["a"] in ("JoinDone", "PartsDone"):
            return "C15.leader_assigns_all"
        return None
    run_group(chk, "C15", tier, seed, alias=alias)


def liveness(chk, tier):
    """C17's temporal half on the design: once faults cease the member settles as a stable member (Group_Live.tla,
    complete state space, weak fairness of every kind of fault-free event)"""
    cfg = groupfam.CONFIGS[0]
    defs, consts = groupfam.cfg_constants(cfg)
    for kf, expect in ((False, True), (True, False)):
        wd = tlc.workdir("C17-%s-live-%s" % (tier, "kf" if kf else "design"))
        lines = ["SPECIFICATION LSpec", "CONSTANTS"] + consts + ["  KF_SwallowFatal = %s" % ("TRUE" if kf else "FALSE"), "  MaxDepth = 0",
                                                                   "CONSTRAINT LBound", "PROPERTY C17_settles", "CHECK_DEADLOCK FALSE"]
        tla, cfgp = tlc.write_mc(wd, "MC_live", "Group_Live", defs, lines)
        rc, text, wall = tlc.run(tla, cfgp, wd, workers=8, timeout=1800)
        violated = bool(re.search(r"Temporal propert(y \S+ was|ies were) violated", text))
        if rc != 0 and not violated:
            raise tlc.MachineryError("liveness check failed to run (rc=%s):\n%s" % (rc, tlc.describe(text)))
        res = tlc.MCResult(0, text, wall)
        if not kf:
            chk.add_model("Group_Live", res, {"KF_SwallowFatal": False, "constraint": "rtimers <= 3", "fairness": "WF of each fault-free event kind"},
                          "temporal property C17_settles: (<>[][fault-free steps]) => <>[](stable member or stopped/failed)")
        chk.count("C17.settles:%s:%s" % ("with-known-finding" if kf else "design", "violated" if violated else "holds"))
        if not kf and violated:
            k = max(0, text.find("Error: Temporal propert"))
            chk.violation("C17.settles", "design", "the design model admits a behaviour in which faults cease and the member never settles",
                          {"family": "group-live", "counterexample": text[k:k + 6000]})
        if kf and not violated:
            chk.notes.append("unexpected: with the recorded finding enabled the temporal property was not violated")


def fsig(steps, line):
    return ">".join((r["e"]["a"] + (":" + r["e"]["k"] if r["e"]["k"] else "")) for r in steps[max(0, line - 3):line])


def run_groupfull(chk, prop, tier, seed):
    """two real group members (real clients, real consumers) on the simulated cluster and coordinator; every recorded
    snapshot is judged by TLC against GroupFence.tla"""
    thorough = tier == "thorough"
    wd = tlc.workdir("%s-%s-groupfull" % (prop, tier))
    n = 3000 if thorough else 300
    jobs = [("full", None, (seed * 9973 + k, 160)) for k in range(n)]
    sources = ["full-stack group random seed=%d" % j[2][0] for j in jobs]
    with Pool(14) as pool:
        traces = pool.map(_exec, jobs, chunksize=5)
    results, _ = tlc.validate_traces(wd, "GroupFence", traces, [], ["SPECIFICATION TSpec", "CONSTRAINT Report", "CHECK_DEADLOCK FALSE"],
                                     timeout=2400, chunk=400)
    chk.add_traces(len(traces), sum(len(t["steps"]) for t in traces))
    stats = {"stable_snapshots": 0, "two_member_generations": 0, "consumers_running_snapshots": 0, "evictions": 0, "stops": 0}
    for t in traces:
        for st in t["steps"]:
            c = st["coord"]
            stats["stable_snapshots"] += c["state"] == "Stable"
            stats["two_member_generations"] += c["state"] == "Stable" and len(c["members"]) == 2
            stats["consumers_running_snapshots"] += any(st["members"][m]["consumers"] for m in ("A", "B"))
            stats["evictions"] += st["e"]["a"] == "Evict"
            stats["stops"] += st["e"]["a"] == "Stop"
    chk.extra["full_stack_group"] = stats
    chk.sample({"family": "group-full", "source": sources[-1], "trace": traces[-1]["steps"][:3]})
    judge(chk, prop, "group-full", traces, results, lambda t: t["steps"], fsig, sources)


def main(prop, tier, seed, replay_file):
    if replay_file:
        with open(replay_file) as f:
            rp = json.load(f)
        if rp["family"] == "parts":
            from . import check_calls
            check_calls.replay(rp)
        if rp["family"] == "group-full":
            tr = groupfull.random_run(rp["trace"]["seed"], rp["trace"]["length"])
            wd = tlc.workdir("replay-%s" % prop)
            results, _ = tlc.validate_traces(wd, "GroupFence", [tr], [], ["SPECIFICATION TSpec", "CONSTRAINT Report", "CHECK_DEADLOCK FALSE"], workers=1)
            print(json.dumps({"result": results[0], "steps": len(tr["steps"])}, indent=1))
            raise SystemExit(1 if [c for c, _ in results[0]["viol"] if c.startswith(prop + ".")] else 0)
        name = rp["family"][len("group["):-1]
        cfg = [c for c in groupfam.CONFIGS if c["name"] == name][0]
        tr = groupfam.execute(cfg, [r.get("was", r["e"]) for r in rp["trace"]["steps"]])
        wd = tlc.workdir("replay-%s" % prop)
        tdefs, tlines = trace_cfg(cfg)
        results, _ = tlc.validate_traces(wd, "Group_Trace", [tr], tdefs, tlines, workers=1)
        print(json.dumps({"trace": tr, "result": results[0]}, indent=1))
        # (under C15 the same executions are judged through an alias of the C17 clause names)
        bad = [c for c, _ in results[0]["viol"] if c.startswith(prop + ".") or (prop == "C15" and not c.startswith("ENV."))]
        raise SystemExit(1 if bad else 0)

    def body(chk):
        chk.assumptions += [
            "the client and the partition consumers are the member's environment here (scripted): the client's own routing and "
            "timeouts are C07/C08/C11's subject, the consumers' stop/shutdown/commit contract C13's and C03's",
            "other members exist only through the coordinator's answers (generation numbers, leadership, assignments)",
            "a member is not restarted after stop (the coordinator object drops its protocol on stop)",
        ]
        run_group(chk, prop, tier, seed)
        chk.assumptions.append("full-stack group runs: the simulated coordinator holds joins until the scheduler completes the "
                               "rebalance and forms the generation from those who joined; members are evicted only by the scheduler")
        run_groupfull(chk, prop, tier, seed)
        if prop == "C17":
            liveness(chk, tier)
            from . import check_calls
            check_calls.parts_lookup(chk, tier, seed)

    run_check(prop, tier, seed, body)
