"""Two small scenario families on the real KafkaClient over the simulated cluster, with TLC as the generator of the
scenarios and of what must be observed (one state per scenario, invariants on the expectations):

* Negotiation.tla - API version discovery (last sentence of C04);
* PartsLookup.tla - KafkaClient._load_topic_partitions, the group leader's partition lookup (C17).
"""
import re

from . import clientfam, kwire, tlaval, tlc

_VEC = re.compile(r'<<\s*"VEC"')


def vectors(wd, module, cfg_lines, name):
    tla, cfgp = tlc.write_mc(wd, name, module, [], ["INIT Init", "NEXT Next"] + cfg_lines + ["CONSTRAINT Emit", "CHECK_DEADLOCK FALSE"])
    rc, text, wall = tlc.run(tla, cfgp, wd, workers=4)
    res = tlc.MCResult(rc, text, wall).check()
    out, seen, pos = [], set(), 0
    while True:
        m = _VEC.search(text, pos)
        if not m:
            break
        tup = tlc._balanced_after(text, m.start())
        pos = m.start() + len(tup)
        if tup in seen:
            continue
        seen.add(tup)
        v = tlaval.to_json(tlaval.parse(tup))
        out.append((v[1], v[2]))
    if len(out) != res.distinct:
        raise tlc.MachineryError("%s: expected %d scenarios from TLC, parsed %d" % (module, res.distinct, len(out)))
    return res, out


def _pump(cr, done, override_for=None, max_iter=600):
    """auto-pilot: answer every pending request (oldest first), fire timers when nothing else can happen"""
    for _ in range(max_iter):
        cr.settle()
        cr.kick_backoff()
        cr.settle()
        if done():
            return True
        progressed = False
        for tr, c in list(cr.cluster.conns.items()):
            if not tr.connected or tr.disconnecting:
                continue
            p = c.oldest()
            if p is not None:
                ov = override_for(p) if override_for else None
                cr.cluster.answer(p, override=ov)
                progressed = True
        if not progressed:
            if cr.clock.next_due() is None:
                return done()
            cr.clock.fire_next()
    return done()


# ---------------------------------------------------------------- negotiation
STORED = [(0, {"magic": 1, "attrs": 0, "key": b"k0", "value": b"v0", "ts": 1500000000000}),
          (1, {"magic": 1, "attrs": 0, "key": None, "value": b"v1", "ts": 1500000000001})]


def run_negotiation(sc):
    from afkak import common as C
    from afkak.kafkacodec import create_message

    cr = clientfam.ClientRun(0, False, discovery=bool(sc["discovery"]))
    try:
        cl = cr.cluster
        b = sc["broker"]
        if b["kind"] == "table":
            cl.api_versions = [(kwire.PRODUCE, 0, b["maxP"]), (kwire.FETCH, 0, b["maxF"])] + \
                              [(k, 0, 1) for k in (2, 3, 8, 9, 10, 11, 12, 13, 14, 18)]
        elif b["kind"] == "error":
            cl.api_versions = []
        else:
            cl.api_versions = None
        part = cl.topics["a"][0]
        cl.store(part, STORED)
        results = []
        ds = []
        for call in sc["calls"]:
            if call == "produce":
                d = cr.client.send_produce_request([C.ProduceRequest("a", 0, [create_message(b"new", b"nk")])])
            else:
                d = cr.client.send_fetch_request([C.FetchRequest("a", 0, 0, 4096)], max_wait_time=100)
            d.addBoth(lambda r, call=call: results.append((call, r)))
            ds.append(d)
        ok = _pump(cr, lambda: len(results) == len(ds),
                   override_for=(lambda p: 35 if p.req["api"] == kwire.API_VERSIONS else None) if b["kind"] == "error" else None)
        seen = [(p.req["api"], p.req["ver"]) for p in cl.received]
        obs = {"completed": ok, "probes": sum(1 for a, _ in seen if a == kwire.API_VERSIONS),
               "versions": {"produce": [v for a, v in seen if a == kwire.PRODUCE], "fetch": [v for a, v in seen if a == kwire.FETCH]},
               "wire_errors": [e[2] for e in cl.wire_errors], "results": []}
        for call, r in results:
            if hasattr(r, "check"):
                obs["results"].append([call, "fail:" + type(r.value).__name__])
            elif call == "produce":
                obs["results"].append([call, "ok" if len(r) == 1 and r[0].error == 0 and r[0].offset >= 2 else "bad:%r" % (r,)])
            else:
                try:
                    got = [(m.offset, m.message.key, m.message.value) for m in r[0].messages]
                except Exception as ex:
                    got = "decode raised %s" % type(ex).__name__
                want = [(o, m["key"], m["value"]) for o, m in STORED]
                obs["results"].append([call, "ok" if got[:2] == want else "bad:%r" % (got,)])
        return obs
    finally:
        cr.restore()


def negotiation(chk, tier, seed):
    wd = tlc.workdir("C04-%s-negotiation" % tier)
    res, vecs = vectors(wd, "Negotiation", ["INVARIANT ChosenIsAdvertised"], "MC_neg")
    chk.add_model("Negotiation", res, {"tables": "max produce {2,3,7} x max fetch {2,4,11}, error answer, no answer",
                                       "calls": "produce / fetch / both orders / two fetches", "discovery": "on and off"},
                  "one state per scenario; invariant: the version expected on the wire is advertised and implemented, 0 when discovery fails")
    n = 0
    for sc, exp in vecs:
        o = run_negotiation(sc)
        n += 1
        want = {"produce": [], "fetch": []}
        for call, v in zip(sc["calls"], exp["versions"]):
            want[call].append(v)
        what = None
        if o["wire_errors"]:
            what = "a request did not parse under the version in its header: %s" % o["wire_errors"][:1]
        elif not o["completed"]:
            what = "the calls never completed"
        elif o["versions"] != want:
            what = "versions on the wire %r, expected %r" % (o["versions"], want)
        elif any(r[1] != "ok" for r in o["results"]):
            what = "a call did not return the broker's data (wrong decoder?): %r" % (o["results"],)
        elif not (exp["probesMin"] <= o["probes"] <= exp["probesMax"]):
            what = "%d ApiVersions requests, expected %d..%d" % (o["probes"], exp["probesMin"], exp["probesMax"])
        chk.count("C04.negotiation_scenarios")
        if what:
            b = sc["broker"]
            sig = "%s/%s/%s" % (b["kind"], "+".join(sc["calls"]), "on" if sc["discovery"] else "off")
            chk.violation("C04.negotiation", sig, "version discovery scenario %s: %s" % (sig, what),
                          {"family": "negotiation", "scenario": sc, "expected": exp, "observed": o})
    chk.extra["negotiation_scenarios"] = n
    chk.sample({"negotiation_scenario": vecs[0][0], "expected": vecs[0][1]})


# ---------------------------------------------------------------- the leader's partition lookup
def run_parts(seq):
    cr = clientfam.ClientRun(0, False)
    try:
        cl = cr.cluster
        out = []
        d = cr.client._load_topic_partitions("a", "b")
        d.addBoth(out.append)
        timers = 0
        nreq0 = 0
        for ans in seq:
            # bring the metadata request of this attempt to a broker
            pend = None
            for _ in range(50):
                cr.settle()
                cr.kick_backoff()
                cr.settle()
                for tr, c in list(cl.conns.items()):
                    p = c.oldest() if tr.connected and not tr.disconnecting else None
                    if p is not None and p.req["api"] == kwire.METADATA:
                        pend = p
                if pend is not None or out:
                    break
            if pend is None:
                break
            r = pend.req
            resp = cl.respond(r["api"], r["ver"], r["body"], pend.conn.broker.node, None)
            bad = {"ok": (), "errA": ("a",), "errB": ("b",), "errBoth": ("a", "b")}[ans]
            resp["topics"] = [({"error": 5, "topic": t["topic"], "partitions": []} if t["topic"] in bad else t) for t in resp["topics"]]
            pend.conn.send(pend, kwire.enc_response(r["api"], r["ver"], r["corr"], resp))
            cr.settle()
            if out:
                break
            # a bad answer: the lookup waits for its retry delay
            nd = cr.clock.next_due()
            if nd is not None and ans is not seq[-1]:
                timers += 1
                cr.clock.fire_next()
            elif nd is not None:
                timers += 1
        reqs = sum(1 for p in cl.received if p.req["api"] == kwire.METADATA)
        res = None
        if out:
            r = out[0]
            res = "fail:" + type(r.value).__name__ if hasattr(r, "check") else {k: sorted(v) for k, v in r.items()}
        return {"requests": reqs, "completed": bool(out), "result": res, "retries": timers}
    finally:
        cr.restore()


def parts_lookup(chk, tier, seed):
    wd = tlc.workdir("C17-%s-parts" % tier)
    n = 4 if tier == "thorough" else 3
    res, vecs = vectors(wd, "PartsLookup", ["CONSTANTS", "  MaxLen = %d" % n, "INVARIANT Sane"], "MC_parts")
    chk.add_model("PartsLookup", res, {"MaxLen": n}, "one state per sequence of metadata answers (each: ok / topic a in error / b / both)")
    for seq, exp in vecs:
        o = run_parts(seq)
        chk.count("C17.leader_lookup_scenarios")
        what = None
        if o["completed"] != exp["completes"]:
            what = "completed=%s, expected %s" % (o["completed"], exp["completes"])
        elif o["requests"] != exp["requests"]:
            what = "%d metadata requests, expected %d" % (o["requests"], exp["requests"])
        elif exp["completes"] and o["result"] != {"a": [0, 1], "b": [0]}:
            what = "result %r" % (o["result"],)
        if what:
            chk.violation("C17.leader_lookup", ">".join(seq), "leader's partition lookup with answers %s: %s" % (list(seq), what),
                          {"family": "parts", "scenario": list(seq), "expected": exp, "observed": o})
    chk.extra["leader_lookup_scenarios"] = len(vecs)


# ---------------------------------------------------------------- request bound and timer life (C11)
def run_timeout(sc):
    """one request with the scenario's bound on the real client; a bystander request on the same broker"""
    import afkak.client as ac
    from afkak import common as C
    from afkak.client import KafkaClient
    from afkak.kafkacodec import KafkaCodec
    from . import sim, simkafka

    clock, net = sim.SimClock(), sim.SimNet()
    cl = simkafka.Cluster(net)
    cl.add_broker(1, "k1", 9001)
    cl.add_topic("a", {0: 1})
    client = KafkaClient("k1:9001", timeout=sc["client"] * 1000.0, reactor=clock, endpoint_factory=net.endpoint_factory,
                         retry_policy=lambda f: 0.5, enable_protocol_version_discovery=False, disconnect_on_timeout=bool(sc["dot"]))

    def settle():
        for _ in range(30):
            did = cl.autopilot_connects()
            did = bool(cl.pump_all()) or did
            did = cl.reap() or did
            for dc in list(clock.getDelayedCalls()):
                if clock.delays.get(id(dc)) == 500000 and dc.active():
                    dc.reset(0)
                    did = True
            clock.advance(0)
            if not did:
                break

    out = []
    # learn the cluster first
    d0 = client.load_metadata_for_topics("a")
    settle()
    for tr, c in list(cl.conns.items()):
        p = c.oldest()
        if p is not None:
            cl.answer(p)
    settle()
    broker = client._get_brokerclient(1)
    before = set(id(dc) for dc in clock.getDelayedCalls())
    req_id = client._next_id()
    request = KafkaCodec.encode_metadata_request(client._clientIdBytes, req_id, ["a"])
    kw = {"min_timeout": float(sc["min"])} if sc["min"] else {}
    d = client._make_request_to_broker(broker, req_id, request, **kw)
    d.addBoth(out.append)
    settle()
    mine = [dc for dc in clock.getDelayedCalls() if id(dc) not in before]
    armed = sorted(clock.delays.get(id(dc), -1) for dc in mine)
    # a bystander on the same connection, issued a little later
    clock.advance(1.0)
    by_id = client._next_id()
    by_out = []
    db = client._make_request_to_broker(broker, by_id, KafkaCodec.encode_metadata_request(client._clientIdBytes, by_id, ["a"]))
    db.addBoth(by_out.append)
    settle()
    n_wire0 = len(cl.received)
    if sc["fate"] == "answered":
        for p in cl.received:
            if not p.answered and p.req["corr"] == req_id:
                cl.answer(p)
        settle()
    elif sc["fate"] == "cancelled":
        d.cancel()
        settle()
    # let time pass up to just before the bystander's own deadline: the request's deadline lies inside
    bound = max(sc["client"], sc["min"]) if sc["min"] else sc["client"]
    horizon = bound + 0.5
    if sc["fate"] != "silent":
        horizon = min(horizon, sc["client"] + 0.5)      # the bystander must not reach its own deadline
    t_end = clock.seconds() + horizon - 1.0
    while True:
        nd = clock.next_due()
        if nd is None or nd.getTime() > t_end:
            break
        clock.advance(nd.getTime() - clock.seconds())
        settle()
        if by_out and sc["fate"] != "silent":
            break
    left = [dc for dc in mine if dc.active()]
    resent = sum(1 for p in cl.received[n_wire0:] if p.req["corr"] == by_id)
    r = out[0] if out else None
    outcome = "pending" if r is None else ("ok" if not hasattr(r, "check") else
                                           "timed_out" if r.check(C.RequestTimedOutError) else
                                           "cancelled" if r.check(defer_CancelledError()) else "fail:" + type(r.value).__name__)
    return {"armed_us": armed, "outcome": outcome, "timers_left": len(left), "bystander_resent": resent > 0,
            "bystander_done_early": bool(by_out) and sc["fate"] != "silent" and hasattr(by_out[0], "check")}


def defer_CancelledError():
    from twisted.internet import defer
    return defer.CancelledError


def timeouts(chk, tier, seed):
    wd = tlc.workdir("C11-%s-timeouts" % tier)
    res, vecs = vectors(wd, "Timeouts", ["INVARIANT BoundIsFloor"], "MC_timeouts")
    chk.add_model("Timeouts", res, {"client timeout s": [5, 10, 60], "minimum s": ["none", 35], "fate": ["answered", "silent", "cancelled"],
                                    "disconnect_on_timeout": [True, False]},
                  "one state per scenario; invariant: the bound is the larger of the client's timeout and the caller's minimum")
    for sc, exp in vecs:
        o = run_timeout(sc)
        chk.count("C11.bound_scenarios")
        what = None
        if o["armed_us"] != [exp["bound"] * 1000000]:
            what = "timer armed with %r microseconds, expected [%d]" % (o["armed_us"], exp["bound"] * 1000000)
        elif o["outcome"] != exp["outcome"]:
            what = "request ended as %s, expected %s" % (o["outcome"], exp["outcome"])
        elif o["timers_left"] != exp["timersLeft"]:
            what = "%d timer(s) of the request still armed after it was over" % o["timers_left"]
        elif exp["bystanderUndisturbed"] and (o["bystander_resent"] or o["bystander_done_early"]):
            what = "another request on the same connection was disturbed (re-sent=%s, failed early=%s)" % (o["bystander_resent"], o["bystander_done_early"])
        if what:
            sig = "client=%d/min=%d/%s/%s" % (sc["client"], sc["min"], sc["fate"], "dot" if sc["dot"] else "nodot")
            chk.violation("C11.request_bound", sig, "request bound scenario %s: %s" % (sig, what),
                          {"family": "timeouts", "scenario": sc, "expected": exp, "observed": o})
    chk.extra["request_bound_scenarios"] = len(vecs)


def replay(rp, path=None):
    """re-run the scenario of a replay file written by this module; exit 1 when it still fails"""
    import json
    if rp["family"] == "negotiation":
        o = run_negotiation(rp["scenario"])
    elif rp["family"] == "timeouts":
        o = run_timeout(rp["scenario"])
    else:
        o = run_parts(rp["scenario"])
    print(json.dumps({"scenario": rp["scenario"], "expected": rp["expected"], "observed_then": rp["observed"], "observed_now": o},
                     indent=1, default=repr))
    same = json.dumps(o, default=repr) == json.dumps(rp["observed"], default=repr)
    if same and path:
        print("VIOLATION property=%s replay=%s" % (rp.get("property", "?"), path))
    raise SystemExit(1 if same else 0)
