"""Simulated reactor clock and network for driving real afkak objects deterministically.

The harness owns every source of nondeterminism: virtual time (SimClock), connection
attempts and byte delivery (SimNet / SimTransport).  Nothing happens spontaneously:
every connect result, every delivered byte and every timer firing is an explicit call.
"""
import struct

from twisted.internet import address, defer, error, interfaces, task
from twisted.python import failure
from zope.interface import implementer


class SimClock(task.Clock):
    """task.Clock that can report newly created / cancelled delayed calls between two marks."""

    def __init__(self):
        super().__init__()
        self._created = []
        self.delays = {}      # id(DelayedCall) -> delay in microseconds it was created with (kept alive in _keep)
        self._keep = []

    def callLater(self, delay, callable, *args, **kw):
        dc = super().callLater(delay, callable, *args, **kw)
        us = int(round(delay * 1000000))
        self._created.append((dc, us))
        self.delays[id(dc)] = us
        self._keep.append(dc)
        return dc

    def mark(self):
        self._created = []
        return set(id(c) for c in self.getDelayedCalls())

    def since(self, mark, fired=()):
        """(new_delays_us_still_pending, n_cancelled) since `mark`."""
        now_ids = set(id(c) for c in self.getDelayedCalls())
        new = [d for (dc, d) in self._created if id(dc) in now_ids]
        created_ids = set(id(dc) for dc, _ in self._created)
        gone = [i for i in mark if i not in now_ids and i not in fired]
        return new, len(gone)

    def pending(self):
        return sorted(self.getDelayedCalls(), key=lambda c: c.getTime())

    def next_due(self):
        p = self.pending()
        return p[0] if p else None

    def fire_next(self):
        """Advance to the earliest pending call and run everything due then. Returns ids fired."""
        p = self.pending()
        if not p:
            raise RuntimeError("no pending delayed call")
        t = p[0].getTime()
        due = set(id(c) for c in p if c.getTime() <= t)
        self.advance(max(0.0, t - self.seconds()))
        return due


@implementer(interfaces.ITransport, interfaces.ITCPTransport)
class SimTransport:
    """In-memory client-side transport.  Bytes written by the client accumulate in `c2b`;
    the harness takes them (whole frames) when it decides the broker receives them."""

    def __init__(self, net, attempt, protocol):
        self.net = net
        self.attempt = attempt
        self.protocol = protocol
        self.c2b = bytearray()       # written by the client, not yet taken by the broker
        self.taken = 0               # frames taken so far
        self.connected = True
        self.disconnecting = False
        self.lose_calls = 0
        self.written_after_lose = 0

    # ITransport
    def write(self, data):
        if not self.connected:
            return
        if self.disconnecting:
            self.written_after_lose += len(data)
        self.c2b += data
        self.net.on_write(self, data)

    def writeSequence(self, seq):
        for d in seq:
            self.write(d)

    def loseConnection(self):
        if self.connected and not self.disconnecting:
            self.disconnecting = True
            self.lose_calls += 1
            self.net.on_lose(self)

    def abortConnection(self):
        self.loseConnection()

    def getPeer(self):
        return address.IPv4Address("TCP", self.attempt.host, self.attempt.port)

    def getHost(self):
        return address.IPv4Address("TCP", "client", 40000 + self.attempt.serial)

    def setTcpNoDelay(self, enabled):
        pass

    def getTcpNoDelay(self):
        return False

    def setTcpKeepAlive(self, enabled):
        pass

    def getTcpKeepAlive(self):
        return False

    def loseWriteConnection(self):
        pass

    # harness side
    def take_frames(self):
        """Complete int32-length-prefixed frames written by the client since the last call."""
        out = []
        buf = self.c2b
        while len(buf) >= 4:
            (n,) = struct.unpack(">i", bytes(buf[:4]))
            if n < 0 or len(buf) < 4 + n:
                break
            out.append(bytes(buf[4:4 + n]))
            del buf[:4 + n]
        self.taken += len(out)
        return out

    def deliver(self, data):
        """Bytes from the broker reach the client protocol (nothing once the client asked to close,
        mirroring a TCP transport that stops reading in loseConnection)."""
        if not self.connected or self.disconnecting:
            return False
        self.protocol.dataReceived(data)
        return True

    def drop(self, clean=None):
        """The connection goes away (reset by peer, or completion of a requested close)."""
        if not self.connected:
            return
        self.connected = False
        if clean is None:
            clean = self.disconnecting
        reason = failure.Failure(error.ConnectionDone() if clean else error.ConnectionLost())
        self.net.on_gone(self)
        self.protocol.connectionLost(reason)


class Attempt:
    def __init__(self, net, serial, host, port, factory):
        self.net, self.serial, self.host, self.port, self.factory = net, serial, host, port, factory
        self.state = "pending"   # pending | accepted | refused | cancelled
        self.d = defer.Deferred(self._cancel)
        self.transport = None

    def _cancel(self, d):
        if self.net.win_on_cancel and self.state == "pending":
            # the connection wins the race with the cancellation: the endpoint delivers it from inside cancel()
            self.net.on_attempt_cancelled(self)
            self.accept()
            return
        self.state = "cancelled"
        self.net.on_attempt_cancelled(self)

    def accept(self):
        assert self.state == "pending"
        self.state = "accepted"
        proto = self.factory.buildProtocol(address.IPv4Address("TCP", self.host, self.port))
        self.transport = SimTransport(self.net, self, proto)
        self.net.transports.append(self.transport)
        proto.makeConnection(self.transport)
        self.d.callback(proto)
        return self.transport

    def refuse(self):
        assert self.state == "pending"
        self.state = "refused"
        self.d.errback(failure.Failure(error.ConnectionRefusedError("simulated refusal")))


@implementer(interfaces.IStreamClientEndpoint)
class SimEndpoint:
    def __init__(self, net, host, port):
        self.net, self.host, self.port = net, host, port

    def connect(self, factory):
        return self.net.new_attempt(self.host, self.port, factory).d

    def __repr__(self):
        return "<SimEndpoint %s:%s>" % (self.host, self.port)


class SimNet:
    """Registry of connection attempts and live transports; an `endpoint_factory`."""

    def __init__(self):
        self.attempts = []
        self.transports = []
        self.log = []           # low-level notifications since the last `drain_log`
        self.closed = False
        self.sync_next = 0      # the next attempt completes inside connect(): 1 accepted, 2 refused
        self.win_on_cancel = False

    def endpoint_factory(self, reactor, host, port):
        return SimEndpoint(self, host, port)

    def new_attempt(self, host, port, factory):
        a = Attempt(self, len(self.attempts) + 1, host, port, factory)
        self.attempts.append(a)
        self.log.append(("connect", a.serial, host, port))
        if self.sync_next:
            mode, self.sync_next = self.sync_next, 0
            if mode == 1:
                a.accept()
            else:
                a.refuse()
        return a

    def pending_attempts(self):
        return [a for a in self.attempts if a.state == "pending"]

    def live(self):
        return [t for t in self.transports if t.connected]

    def on_write(self, tr, data):
        self.log.append(("write", tr.attempt.serial, len(data)))

    def on_lose(self, tr):
        self.log.append(("lose", tr.attempt.serial))

    def on_gone(self, tr):
        self.log.append(("gone", tr.attempt.serial))

    def on_attempt_cancelled(self, a):
        self.log.append(("ccancel", a.serial))

    def drain_log(self):
        lg, self.log = self.log, []
        return lg
