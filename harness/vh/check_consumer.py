"""Checks C02, C03, C13, C14 (and the consumer half of C12): Consumer.tla against the real Consumer."""
import json
import random
from multiprocessing import Pool

from . import consfam, consfull, tlc
from .check_conn import judge
from .report import run_check

INVS = ["C02_order", "C02_no_gap", "C02_no_overlap", "C03_behind", "C03_recorded", "C13_start_once",
        "C13_quiet_after_stop", "C13_stopped_clean"]


def design_cfg(cfg, depth, inv=True):
    defs, consts = consfam.cfg_constants(cfg)
    lines = ["SPECIFICATION Spec", "CONSTANTS"] + consts + ["  MaxDepth = %d" % depth, "CONSTRAINT Bound", "CHECK_DEADLOCK FALSE"]
    if inv:
        lines += ["INVARIANT %s" % i for i in INVS]
    return defs, lines


def trace_cfg(cfg):
    defs, consts = consfam.cfg_constants(cfg)
    return defs, ["SPECIFICATION TSpec", "CONSTANTS"] + consts + ["  MaxDepth = 0", "CONSTRAINT Report", "CHECK_DEADLOCK FALSE"]


def _exec(args):
    import logging
    import warnings
    logging.disable(logging.CRITICAL)
    warnings.simplefilter("ignore")
    kind, cfg, payload = args
    if kind == "events":
        return consfam.execute(cfg, payload)
    if kind == "full":
        cfg = [c for c in consfull.CONFIGS if c["name"] == cfg][0]
        t = consfull.random_run(cfg, payload[0], payload[1])
        t["seed"], t["length"] = payload
        return t
    return consfam.random_run(cfg, payload[0], payload[1])


def csig(steps, line):
    """signature of a violating step: the event, and whether a processor failure preceded it"""
    evs = [r["e"]["a"] for r in steps[max(0, line - 3):line]]
    failed = any(r["e"]["a"] == "ProcDone" and r["e"]["x"] != 1 for r in steps[:line])
    return ">".join(evs) + ("|after-processor-failure" if failed else "")


def run_consumer(chk, prop, tier, seed, alias=None, only=None):
    thorough = tier == "thorough"
    rng = random.Random(seed)
    configs = [c for c in consfam.CONFIGS if only is None or c["name"] in only]
    for ci, cfg in enumerate(configs):
        wd = tlc.workdir("%s-%s-cons-%d" % (prop, tier, ci))
        depth = 11 if thorough else 8
        defs, lines = design_cfg(cfg, depth)
        res = tlc.model_check(wd, "MC_Consumer", "Consumer", defs, lines, timeout=1500).check()
        chk.add_model("Consumer[%s]" % cfg["name"], res, {k: cfg[k] for k in ("log", "block_n", "auto_t", "group", "max_attempts", "reset", "sync", "max_buf")},
                      "start at every position kind, fetch replies (next 0-3 messages, with a compressed-batch prefix, too small), errors, "
                      "processor completions, manual/auto commits and their outcomes, retry timers, stop and shutdown in every state")
        gdefs, glines = design_cfg(cfg, 5 if not thorough else 6, inv=False)
        gres, g = tlc.dump_graph(wd, "MC_graph", "Consumer", gdefs, glines, workers=1, timeout=1500)   # one worker: reproducible graph
        paths = g.edge_cover(rng, max_len=12)
        cap = 3000 if thorough else 500
        if len(paths) > cap:
            rng.shuffle(paths)
            paths = paths[:cap]
        jobs = [("events", cfg, g.events(p)) for p in paths]
        sources = ["TLC edge-cover"] * len(jobs)
        sdefs, slines = design_cfg(cfg, 40, inv=False)
        for evs in tlc.simulate(wd, "MC_sim", "Consumer", sdefs, slines, 1500 if thorough else 200, 20, seed + ci, timeout=1500):
            jobs.append(("events", cfg, [e["ev"] for e in evs]))
            sources.append("TLC -simulate")
        for k in range(3000 if thorough else 400):
            jobs.append(("random", cfg, (seed * 1000003 + k, 35)))
            sources.append("random seed=%d" % (seed * 1000003 + k))
        with Pool(14) as pool:
            traces = pool.map(_exec, jobs, chunksize=25)
        keep = [(t, s_) for t, s_ in zip(traces, sources) if t and t["steps"]]
        traces = [t for t, _ in keep]
        sources = [s_ for _, s_ in keep]
        tdefs, tlines = trace_cfg(cfg)
        results, _ = tlc.validate_traces(wd, "Consumer_Trace", traces, tdefs, tlines, timeout=1500)
        chk.add_traces(len(traces), sum(len(t["steps"]) for t in traces))
        chk.sample({"family": "consumer", "config": cfg["name"], "source": sources[-1], "trace": traces[-1]["steps"][:6]})
        judge(chk, prop, "consumer[%s]" % cfg["name"], traces, results, lambda t: t["steps"], csig, sources, alias=alias)


LIVE_CONFIGS = {
    "async-n1-earliest": ["  Log = {0, 1}", "  BlockN = 1", "  AutoCommitT = FALSE", "  Group = TRUE", "  MaxAttempts = 0",
                          '  Reset = "earliest"', "  SyncProc = FALSE", "  Delays <- DelaysDef", "  MaxBuf = 1"],
    "sync-tick-latest": ["  Log = {0, 2}", "  BlockN = 0", "  AutoCommitT = TRUE", "  Group = TRUE", "  MaxAttempts = 0",
                         '  Reset = "latest"', "  SyncProc = TRUE", "  Delays <- DelaysDef", "  MaxBuf = 0"],
    "nogroup-limit2": ["  Log = {0, 1, 2}", "  BlockN = 0", "  AutoCommitT = FALSE", "  Group = FALSE", "  MaxAttempts = 2",
                       '  Reset = "none"', "  SyncProc = FALSE", "  Delays <- DelaysDef", "  MaxBuf = 1"],
}


def liveness(chk, prop, tier):
    """progress on the design (Consumer_Live.tla): once faults cease a started consumer that was not stopped and did not fail
    has the whole log fetched and handed over; complete state space, weak fairness of every kind of fault-free event"""
    import re
    for name, consts in LIVE_CONFIGS.items():
        wd = tlc.workdir("%s-%s-conslive-%s" % (prop, tier, name))
        lines = ["SPECIFICATION LSpec", "CONSTANTS"] + consts + ["  MaxDepth = 0", "CONSTRAINT LBound", "PROPERTY C02_progress", "CHECK_DEADLOCK FALSE"]
        tla, cfgp = tlc.write_mc(wd, "MC_live", "Consumer_Live", ["DelaysDef == <<100000, 120205>>"], lines)
        rc, text, wall = tlc.run(tla, cfgp, wd, workers=8, timeout=1800)
        violated = bool(re.search(r"Temporal propert(y \S+ was|ies were) violated", text))
        if rc != 0 and not violated:
            raise tlc.MachineryError("consumer liveness check failed to run (rc=%s):\n%s" % (rc, tlc.describe(text)))
        chk.add_model("Consumer_Live[%s]" % name, tlc.MCResult(0, text, wall), {"constants": [c.strip() for c in consts], "constraint": "at most 3 commit waiters"},
                      "temporal property C02_progress: (<>[][fault-free steps]) => <>[](caught up with the log, or stopped / failed)")
        chk.count("%s.progress:%s:%s" % (prop, name, "violated" if violated else "holds"))
        if violated:
            k = max(0, text.find("Error: Temporal propert"))
            chk.violation("%s.progress" % prop, name, "the design model admits a behaviour in which faults cease and the consumer never catches up",
                          {"family": "consumer-live", "config": name, "counterexample": text[k:k + 6000]})


def run_full(chk, prop, tier, seed, alias=None):
    """the real Consumer over the real client, codec and the simulated cluster; consumer-level events derived by the recorder"""
    thorough = tier == "thorough"
    for ci, cfg in enumerate(consfull.CONFIGS):
        wd = tlc.workdir("%s-%s-consfull-%d" % (prop, tier, ci))
        n = 2500 if thorough else 250
        jobs = [("full", cfg["name"], (seed * 7919 + ci * 100003 + k, 130)) for k in range(n)]
        sources = ["full-stack random seed=%d" % j[2][0] for j in jobs]
        with Pool(14) as pool:
            traces = pool.map(_exec, jobs, chunksize=10)
        keep = [(t, s_) for t, s_ in zip(traces, sources) if t and t["steps"]]
        traces = [t for t, _ in keep]
        sources = [s_ for _, s_ in keep]
        tdefs, tlines = trace_cfg(cfg)
        results, _ = tlc.validate_traces(wd, "Consumer_Trace", traces, tdefs, tlines, timeout=1500)
        chk.add_traces(len(traces), sum(len(t["steps"]) for t in traces))
        kinds = {}
        for t in traces:
            for st in t["steps"]:
                k = st["e"]["a"] + (":" + st["e"]["k"] if st["e"]["k"] and st["e"]["a"] != "Commit" else "")
                kinds[k] = kinds.get(k, 0) + 1
        chk.extra.setdefault("full_stack_event_counts", {})[cfg["name"]] = kinds
        chk.sample({"family": "consumer-full", "config": cfg["name"], "source": sources[-1], "trace": traces[-1]["steps"][:8]})
        judge(chk, prop, "consumer-full[%s]" % cfg["name"], traces, results, lambda t: t["steps"], csig, sources, alias=alias)


def grow_not_skip(chk, tier, seed):
    """C12, consumer half: after 'fetch size too small' the next fetch has the same offset and the next buffer size."""
    def alias(clause, step):
        # what the consumer does with 'fetch size too small' (same offset, next buffer size, never past the message)
        if clause in ("C14.growth", "C02.fetch_position", "C13.start_result") and step["e"]["a"] == "FetchDone" and step["e"]["w"] == [-1]:
            return "C12.grow_not_skip"
        return None
    run_consumer(chk, "C12", tier, seed, alias=alias, only=("group-n1-sync-latest", "nogroup-async-noreset-limit2", "nogroup-sync-bigbuf"))


def main(prop, tier, seed, replay_file):
    if replay_file:
        with open(replay_file) as f:
            rp = json.load(f)
        if rp["family"].startswith("consumer-full["):
            name = rp["family"][len("consumer-full["):-1]
            cfg = [c for c in consfull.CONFIGS if c["name"] == name][0]
            tr = consfull.random_run(cfg, rp["trace"]["seed"], rp["trace"]["length"])
        else:
            name = rp["family"][len("consumer["):-1]
            cfg = [c for c in consfam.CONFIGS if c["name"] == name][0]
            tr = consfam.execute(cfg, [r.get("was", r["e"]) for r in rp["trace"]["steps"]])
        wd = tlc.workdir("replay-%s" % prop)
        tdefs, tlines = trace_cfg(cfg)
        results, _ = tlc.validate_traces(wd, "Consumer_Trace", [tr], tdefs, tlines, workers=1)
        print(json.dumps({"trace": tr, "result": results[0]}, indent=1))
        # (C08 and C12 judge these executions through aliases of the consumer clauses)
        raise SystemExit(1 if [c for c, _ in results[0]["viol"]
                               if c.startswith(prop + ".") or (prop in ("C08", "C12") and not c.startswith("ENV."))] else 0)

    def body(chk):
        chk.assumptions += [
            "the client is the consumer's environment here (scripted): replies are the next 0-3 log entries, optionally preceded by one already consumed entry, or 'too small'",
            "process death is modelled as abandoning the consumer at an event boundary and starting a new one from the committed position",
        ]
        run_consumer(chk, prop, tier, seed)
        if prop in ("C02", "C14"):
            liveness(chk, prop, tier)
        chk.assumptions.append("full-stack runs: consumer-level events are derived from the completion of the client's request methods; "
                               "a completion arriving while the consumer handles another event is delivered right after it")
        run_full(chk, prop, tier, seed)

    run_check(prop, tier, seed, body)
