"""Checks C01, C09, C19: Producer.tla against the real Producer."""
import json
import random
from multiprocessing import Pool

from . import prodfam, tlc
from .check_conn import judge
from .report import run_check

INVS = ["C01_once", "C01_ok_only_from_ack", "C09_order", "C09_one_payload", "C09_attempts", "C09_serial",
        "C19_threshold", "C19_accounting", "C19_stop"]


def design_cfg(cfg, depth, nsids, inv=True):
    c = dict(cfg, sends=cfg["sends"][:nsids])
    defs, consts = prodfam.cfg_constants(c)
    lines = ["SPECIFICATION Spec", "CONSTANTS"] + consts + ["  MaxDepth = %d" % depth, "CONSTRAINT Bound", "CHECK_DEADLOCK FALSE"]
    if inv:
        lines += ["INVARIANT %s" % i for i in INVS]
    return defs, lines


def trace_cfg(cfg):
    defs, consts = prodfam.cfg_constants(cfg)
    return defs, ["SPECIFICATION TSpec", "CONSTANTS"] + consts + ["  MaxDepth = 0", "CONSTRAINT Report", "CHECK_DEADLOCK FALSE"]


def _exec(args):
    import logging
    import warnings
    logging.disable(logging.CRITICAL)
    warnings.simplefilter("ignore")
    kind, cfg, payload = args
    if kind == "events":
        return prodfam.execute(cfg, payload)
    if kind == "full":
        from . import prodfull
        return prodfull.random_run(cfg, payload[0], payload[1])
    return prodfam.random_run(cfg, payload[0], payload[1])


def psig(steps, line):
    evs = [r["e"]["a"] for r in steps[max(0, line - 3):line]]
    return ">".join(evs)


def run_producer(chk, prop, tier, seed):
    thorough = tier == "thorough"
    rng = random.Random(seed)
    configs = prodfam.CONFIGS if thorough else prodfam.CONFIGS[:4]
    for ci, cfg in enumerate(configs):
        wd = tlc.workdir("%s-%s-prod-%d" % (prop, tier, ci))
        depth = 8 if thorough else 7
        defs, lines = design_cfg(cfg, depth, 3)
        res = tlc.model_check(wd, "MC_Producer", "Producer", defs, lines, timeout=1500).check()
        chk.add_model("Producer[%s]" % cfg["name"], res, {k: cfg[k] for k in ("batch_n", "batch_b", "batch_t", "max_attempts", "acks")},
                      "3 sends over 2 topics; every interleaving of sends, cancels, ticks, metadata results, produce outcomes "
                      "(per-payload ok / error 6 / error 7 / not sent; empty; client errors), retry timers and stop")
        gdefs, glines = design_cfg(cfg, 5 if not thorough else 6, 3, inv=False)
        gres, g = tlc.dump_graph(wd, "MC_graph", "Producer", gdefs, glines, timeout=1500)
        paths = g.edge_cover(rng, max_len=12)
        cap = 3000 if thorough else 500
        if len(paths) > cap:
            rng.shuffle(paths)
            paths = paths[:cap]
        jobs = [("events", cfg, g.events(p)) for p in paths]
        sources = ["TLC edge-cover"] * len(jobs)
        sdefs, slines = design_cfg(cfg, 40, 5, inv=False)
        for evs in tlc.simulate(wd, "MC_sim", "Producer", sdefs, slines, 1500 if thorough else 200, 18, seed + ci, timeout=1500):
            jobs.append(("events", cfg, [e["ev"] for e in evs]))
            sources.append("TLC -simulate")
        for k in range(3000 if thorough else 300):
            jobs.append(("random", cfg, (seed * 1000003 + k, 30)))
            sources.append("random seed=%d" % (seed * 1000003 + k))
        try:
            from . import prodfull  # noqa: F401
            for k in range(2000 if thorough else 250):
                jobs.append(("full", cfg, (seed * 1000003 + k, 40)))
                sources.append("full-stack random seed=%d" % (seed * 1000003 + k))
        except ImportError:
            pass
        with Pool(14) as pool:
            traces = pool.map(_exec, jobs, chunksize=25)
        keep = [(t, s_) for t, s_ in zip(traces, sources) if t and t["steps"]]
        traces = [t for t, _ in keep]
        sources = [s_ for _, s_ in keep]
        tdefs, tlines = trace_cfg(cfg)
        results, _ = tlc.validate_traces(wd, "Producer_Trace", traces, tdefs, tlines, timeout=1500)
        chk.add_traces(len(traces), sum(len(t["steps"]) for t in traces))
        chk.sample({"family": "producer", "config": cfg["name"], "source": sources[-1], "trace": traces[-1]["steps"][:6]})
        judge(chk, prop, "producer[%s]" % cfg["name"], traces, results, lambda t: t["steps"], psig, sources)


def main(prop, tier, seed, replay_file):
    if replay_file:
        with open(replay_file) as f:
            rp = json.load(f)
        name = rp["family"][len("producer["):-1]
        cfg = [c for c in prodfam.CONFIGS if c["name"] == name][0]
        tr = prodfam.execute(cfg, [r.get("was", r["e"]) for r in rp["trace"]["steps"]])
        wd = tlc.workdir("replay-%s" % prop)
        tdefs, tlines = trace_cfg(cfg)
        results, _ = tlc.validate_traces(wd, "Producer_Trace", [tr], tdefs, tlines, workers=1)
        print(json.dumps({"trace": tr, "result": results[0]}, indent=1))
        raise SystemExit(1 if [c for c, _ in results[0]["viol"] if c.startswith(prop + ".")] else 0)

    def body(chk):
        chk.assumptions += [
            "the client is the producer's environment here and is held to its own contract by the client-family checks (C07, C08)",
            "retry delays are compared with a table computed independently as interval*1.20205^k, tolerance 2 microseconds",
        ]
        run_producer(chk, prop, tier, seed)

    run_check(prop, tier, seed, body)
