"""Checks C07, C08, C11, C20 (and the negotiation clause of C04): ClientRouting.tla against the real
KafkaClient over real broker clients, a simulated network and a simulated cluster."""
import json
import random
from multiprocessing import Pool

from . import clientfam, tlc
from .check_conn import judge
from .report import run_check

DEFS = ['PLSetDef == {<<<<"a", 0>>>>, <<<<"a", 0>>, <<"a", 1>>>>, <<<<"a", 1>>, <<"b", 0>>, <<"a", 0>>>>}',
        'MetaSetDef == {<<>>, <<"a">>}', 'MoveTPsDef == {<<"a", 0>>}']


ALL_KINDS = ["CallMeta", "CallProduce", "CallCommit", "Answer", "Timeout", "Drop", "Down", "Up", "Readdress", "MoveCoord",
             "Retire", "MoveLeader", "Reap", "Close"]


def kinds_set(kinds):
    return "{%s}" % ", ".join('"%s"' % k for k in kinds)


def design_cfg(depth, dot, inv=True, max_ops=2, max_reqs=5, acks="{1}", foe="{FALSE}", errs="{0, 7}", kinds=ALL_KINDS):
    lines = ["SPECIFICATION Spec", "CONSTANTS", "  MaxOps = %d" % max_ops, "  MaxReqs = %d" % max_reqs,
             "  EvKinds = %s" % kinds_set(kinds),
             "  MaxDepth = %d" % depth, "  DisconnectOnTimeout = %s" % ("TRUE" if dot else "FALSE"),
             "  PLSet <- PLSetDef", "  AckSet = %s" % acks, "  FoeSet = %s" % foe, "  ErrSet = %s" % errs,
             "  FaultBrokers = {1, 2}", "  MoveTPs <- MoveTPsDef", "  MetaSet <- MetaSetDef",
             "CONSTRAINT Bound", "CHECK_DEADLOCK FALSE"]
    if inv:
        lines += ["INVARIANT %s" % i for i in ("C07_one_per_broker", "C07_order_account", "OpsOnce", "C08_invalidate",
                                               "C11_bound", "C20_close", "C20_close_fires_last")]
    return lines


def trace_cfg(max_ops, dot):
    return ["SPECIFICATION TSpec", "CONSTANTS", "  MaxOps = %d" % max_ops, "  MaxReqs = 0", "  MaxDepth = 0",
            "  DisconnectOnTimeout = %s" % ("TRUE" if dot else "FALSE"), "  EvKinds = {}",
            "  PLSet = {}", "  AckSet = {}", "  FoeSet = {}", "  ErrSet = {}", "  FaultBrokers = {}", "  MoveTPs = {}",
            "  MetaSet = {}", "CONSTRAINT Report", "CHECK_DEADLOCK FALSE"]


GOALS = [
    # goal predicate, focused alphabet, disconnect_on_timeout, depth, MaxOps, MaxReqs, profile of the random continuation
    ("Goal_close_after_two_prunes", ["CallProduce", "CallMeta", "Answer", "Retire", "Reap", "Close"], False, 14, 3, 7, "prune"),
    ("Goal_close_during_bootstrap", ["CallProduce", "CallMeta", "CallCommit", "Close"], False, 5, 2, 4, "general"),
    ("Goal_close_with_queued", ["CallProduce", "CallMeta", "Answer", "Down", "Close"], False, 8, 3, 7, "general"),
    ("Goal_readdressed_known", ["CallProduce", "CallMeta", "Answer", "Readdress"], False, 8, 2, 6, "general"),
    ("Goal_timeout_two_in_flight", ["CallProduce", "CallMeta", "Answer", "Timeout"], True, 8, 3, 7, "timeouts"),
]


def _exec(args):
    import logging
    import warnings
    logging.disable(logging.CRITICAL)
    warnings.simplefilter("ignore")
    kind, payload, dot = args
    if kind == "events":
        return clientfam.execute(payload, dot=dot, forced=True)
    if kind == "goal":
        return clientfam.random_run(payload[0], payload[1], dot=dot, profile=payload[2], max_ops=3, prefix=payload[3])
    return clientfam.random_run(payload[0], payload[1], dot=dot, profile=payload[2], max_ops=payload[3])


def client_sig(trace, line):
    evs = [r["e"]["a"] for r in trace[max(0, line - 3):line]]
    return ">".join(evs)


def run_client(chk, prop, tier, seed):
    thorough = tier == "thorough"
    rng = random.Random(seed)
    for dot in ((False, True) if prop in ("C11",) or thorough else (False,)):
        wd = tlc.workdir("%s-%s-client-%d" % (prop, tier, dot))
        depth = 6 if thorough else 5
        res = tlc.model_check(wd, "MC_Client", "ClientRouting", DEFS, design_cfg(depth, dot), timeout=3000).check()
        chk.add_model("ClientRouting[dot=%s]" % dot, res, {"brokers": 3, "bootstrap": 2, "topics": "a:{0,1} b:{0}", "MaxOps": 2,
                                                           "MaxReqs": 5, "MaxDepth": depth},
                      "operations (metadata, produce with 1-3 payloads, commit), broker answers with/without error, timeouts, "
                      "drops, broker down/up/re-addressed, leader and coordinator moves, reaping, close")
        gres, g = tlc.dump_graph(wd, "MC_graph", "ClientRouting", DEFS, design_cfg(4 if not thorough else 5, dot, inv=False), timeout=3000)
        paths = g.edge_cover(rng, max_len=10)
        if len(paths) > (6000 if thorough else 1200):
            rng.shuffle(paths)
            paths = paths[:6000 if thorough else 1200]
        jobs = [("events", g.events(p), dot) for p in paths]
        sources = ["TLC edge-cover"] * len(jobs)
        sims = tlc.simulate(wd, "MC_sim", "ClientRouting", DEFS,
                            design_cfg(40, dot, inv=False, max_ops=4, max_reqs=14, acks="{0, 1}", foe="{TRUE, FALSE}", errs="{0, 6, 7, 15}"),
                            2000 if thorough else 300, 14, seed + 3, timeout=3000)
        for evs in sims:
            jobs.append(("events", [e["ev"] for e in evs], dot))
            sources.append("TLC -simulate")
        for prof, n, length, mo in (("general", 5000 if thorough else 500, 28, 4), ("prune", 1500 if thorough else 200, 36, 6),
                                    ("timeouts", 1500 if thorough else 200, 28, 4)):
            for k in range(n):
                jobs.append(("random", (seed * 1000003 + k, length, prof, mo), dot))
                sources.append("random[%s] seed=%d" % (prof, seed * 1000003 + k))
        # goal-directed: TLC finds a shortest behaviour into each goal state under a focused alphabet;
        # the real client is driven there and on from there at random
        for goal, kinds, gdot, depth_g, mo, mr, prof in GOALS:
            if gdot != dot:
                continue
            def compute(goal=goal, kinds=kinds, depth_g=depth_g, mo=mo, mr=mr):
                gwd = tlc.workdir("%s-%s-goal-%s" % (prop, tier, goal))
                return tlc.find_path(gwd, "MC_goal", "ClientRouting", DEFS,
                                     design_cfg(depth_g, dot, inv=False, max_ops=mo, max_reqs=mr, acks="{0, 1}", errs="{0}", kinds=kinds),
                                     goal, timeout=2400)
            evs = tlc.cached_goal_path("client_goals.json", ["ClientRouting.tla"], "%s/dot=%s" % (goal, dot), compute)
            if evs is None:
                raise tlc.MachineryError("goal %s is unreachable in its configuration" % goal)
            chk.extra.setdefault("goals", {})[goal] = [e["ev"]["a"] for e in evs]
            for k in range(60 if thorough else 12):
                jobs.append(("goal", (seed * 7919 + k, 10, prof, [e["ev"] for e in evs]), dot))
                sources.append("TLC goal %s + random seed=%d" % (goal, seed * 7919 + k))
        with Pool(14) as pool:
            traces = pool.map(_exec, jobs, chunksize=20)
        keep = [(t, s_) for t, s_ in zip(traces, sources) if t]
        traces = [t for t, _ in keep]
        sources = [s_ for _, s_ in keep]
        max_ops = max(sum(1 for r in t if r["e"]["a"].startswith("Call")) for t in traces)
        results, _ = tlc.validate_traces(wd, "ClientRouting_Trace", traces, DEFS, trace_cfg(max_ops, dot), timeout=3000)
        chk.add_traces(len(traces), sum(len(t) for t in traces))
        chk.sample({"family": "client", "disconnect_on_timeout": dot, "source": sources[-1], "trace": traces[-1][:6]})
        judge(chk, prop, "client[dot=%s]" % dot, traces, results, lambda t: t, client_sig, sources)


def main(prop, tier, seed, replay_file):
    if replay_file:
        with open(replay_file) as _f:
            _rp = json.load(_f)
        if str(_rp.get("family", "")).startswith("consumer"):
            from . import check_consumer
            return check_consumer.main(prop, tier, seed, replay_file)
        if _rp.get("family") == "timeouts":
            from . import check_calls
            return check_calls.replay(_rp, replay_file)
    if replay_file:
        with open(replay_file) as f:
            rp = json.load(f)
        dot = "dot=True" in rp["family"]
        tr = clientfam.execute([dict(r.get("was", r["e"])) for r in rp["trace"]], dot=dot, forced=True)
        wd = tlc.workdir("replay-%s" % prop)
        results, _ = tlc.validate_traces(wd, "ClientRouting_Trace", [tr], DEFS, trace_cfg(8, dot), workers=1)
        print(json.dumps({"trace": tr, "result": results[0]}, indent=1))
        bad = [c for c, _ in results[0]["viol"] if c.startswith(prop + ".")]
        if bad:
            print("VIOLATION property=%s replay=%s" % (prop, replay_file))
            raise SystemExit(1)
        raise SystemExit(0)

    def body(chk):
        chk.assumptions += [
            "connection management is instantaneous in this family (reachable brokers connect at once; reconnect backoff is C10's subject)",
            "time advances only in Timeout events; all request timers armed in between are due at the same instant",
            "cluster: 3 brokers, 2 bootstrap hosts, topics a{0,1} b{0}, one group; version discovery disabled here",
        ]
        run_client(chk, prop, tier, seed)
        if prop == "C11":
            from . import check_calls
            check_calls.timeouts(chk, tier, seed)
        if prop == "C08":
            # "... consuming resumes within the retry budget after faults cease": the real Consumer over this client and
            # the simulated cluster, with leader moves, broker restarts and error answers (Consumer.tla decides what the
            # consumer must do with each failed fetch: retry with the documented backoff, within its attempt limit)
            from . import check_consumer

            def resumes(clause, step):
                if clause in ("C14.backoff", "C14.timers", "C13.start_result", "C02.fetch_position") and step["e"]["a"] == "FetchErr":
                    return "C08.consumer_resumes"
                return None
            check_consumer.run_full(chk, "C08", tier, seed, alias=resumes)
        if prop == "C20":
            # closing the client closes every broker client: what close() does to one connection's requests
            # (BrokerConn.tla, incl. callbacks that cancel siblings re-entrantly) is part of C20 too
            from . import check_conn

            def alias(clause, step):
                e = step["e"]
                if e.get("a") == "Close" or e.get("cb", {}).get("a") == "Close":
                    return "C20.broker_client_close"
                return None
            check_conn.run_conn(chk, "C20", tier, seed, alias=alias)

    run_check(prop, tier, seed, body)
