"""Scenario family `consumer`: the real afkak Consumer over a scripted client: every event of
spec/Consumer.tla is directly executable (client calls complete when the schedule says so, the
processor's Deferred is fired by the schedule)."""
import random
import sys

from twisted.internet import defer
from twisted.python import failure

from . import sim

FACTOR = 1.20205
EARLIEST, LATEST, COMMITTED = -2, -1, -101      # afkak.common.OFFSET_*


def make_cfg(name, log, block_n, auto_t, group, max_attempts, reset, sync, max_buf, buf0=65536, buf_mx=None):
    return {"name": name, "log": log, "block_n": block_n, "auto_t": auto_t, "group": group, "max_attempts": max_attempts,
            "reset": reset, "sync": sync, "max_buf": max_buf, "init_delay": 0.1, "max_delay": 0.2, "buf0": buf0, "buf_mx": buf_mx}


CONFIGS = [
    make_cfg("group-n2-tick-async", [0, 1, 3, 4], 2, True, True, 0, "earliest", False, 1),
    make_cfg("nogroup-async-noreset-limit2", [0, 1, 2], 0, False, False, 2, "none", False, 0),
    make_cfg("group-n1-sync-latest", [2, 3, 5], 1, False, True, 3, "latest", True, 2),
    make_cfg("group-n0-tick-async", [0, 1, 2, 3], 0, True, True, 0, "none", False, 1),
    # buffer growth above 1 MiB (doubling): 1.5 -> 3 -> 6 -> 8 MiB
    make_cfg("nogroup-sync-bigbuf", [0, 1], 0, False, False, 0, "earliest", True, 3, buf0=3 * 2 ** 19, buf_mx=2 ** 23),
]


def delays(cfg, n=10):
    return [int(round(min(cfg["init_delay"] * FACTOR ** k, cfg["max_delay"]) * 1e6)) for k in range(n)]


def cfg_constants(cfg):
    defs = ["DelaysDef == <<%s>>" % ", ".join(map(str, delays(cfg)))]
    consts = ["  Log = {%s}" % ", ".join(map(str, cfg["log"])), "  BlockN = %d" % cfg["block_n"],
              "  AutoCommitT = %s" % ("TRUE" if cfg["auto_t"] else "FALSE"), "  Group = %s" % ("TRUE" if cfg["group"] else "FALSE"),
              "  MaxAttempts = %d" % cfg["max_attempts"], '  Reset = "%s"' % cfg["reset"],
              "  SyncProc = %s" % ("TRUE" if cfg["sync"] else "FALSE"), "  Delays <- DelaysDef", "  MaxBuf = %d" % cfg["max_buf"]]
    return defs, consts


def buffer_sizes(cfg):
    """the sequence of buffer sizes the documented growth rule produces, computed independently"""
    b0 = cfg.get("buf0", 65536)
    steps = cfg["max_buf"]
    if steps == 0:
        return [b0], b0
    mx = cfg.get("buf_mx") or {1: 2 ** 20, 2: 3 * 2 ** 20}[steps]
    sizes = [b0]
    while sizes[-1] < mx:
        b = sizes[-1]
        sizes.append(min(b * (16 if b <= 2 ** 20 else 2), mx))
    assert len(sizes) - 1 == steps, (sizes, steps)
    return sizes, mx


BAD = -2     # last entry of a fetch window: an entry whose decoding raises (bad CRC, unsupported codec)


def bad_tail_iter(good):
    from afkak.common import ChecksumError
    for m in good:
        yield m
    raise ChecksumError("scripted: entry does not decode")


class TooSmallIter:
    def __iter__(self):
        return self

    def __next__(self):
        from afkak.common import ConsumerFetchSizeTooSmall
        raise ConsumerFetchSizeTooSmall()


class ScriptedClient:
    def __init__(self, clock, fam):
        self.reactor = clock
        self.fam = fam
        self.pending = {}      # kind -> Deferred

    def _call(self, kind, act):
        d = defer.Deferred()
        self.pending[kind] = d
        self.fam.act(act)
        return d

    def send_offset_request(self, payloads=None, fail_on_error=True, callback=None):
        return self._call("offsets", ["offsets", payloads[0].time])

    def send_offset_fetch_request(self, group, payloads=None, fail_on_error=True, callback=None):
        return self._call("ofetch", ["ofetch"])

    def send_fetch_request(self, payloads=None, fail_on_error=True, callback=None, max_wait_time=100, min_bytes=4096):
        p = payloads[0]
        return self._call("fetch", ["fetch", p.offset, self.fam.buf_index(p.max_bytes)])

    def send_offset_commit_request(self, group, payloads=None, fail_on_error=True, callback=None, group_generation_id=-1, consumer_id=""):
        return self._call("commit", ["commit", payloads[0].offset])


class ConsumerRun:
    def __init__(self, cfg):
        from afkak.consumer import Consumer

        self.cfg = cfg
        self.clock = sim.SimClock()
        self.acts = []
        self.steps = []
        self.timer_tags = {}
        self._wrap_clock()
        self.client = ScriptedClient(self.clock, self)
        self.sizes, mx = buffer_sizes(cfg)
        self.proc_d = None
        self.overlap = False
        self.ncommit = 0
        self.arm_stop = False
        kw = {}
        if cfg["group"]:
            kw = dict(consumer_group="g", auto_commit_every_n=cfg["block_n"], auto_commit_every_ms=(1000 if cfg["auto_t"] else 0))
        self.consumer = Consumer(self.client, "t", 0, self.processor, buffer_size=self.sizes[0], max_buffer_size=mx,
                                 request_retry_init_delay=cfg["init_delay"], request_retry_max_delay=cfg["max_delay"],
                                 request_retry_max_attempts=cfg["max_attempts"],
                                 auto_offset_reset={"none": None, "earliest": EARLIEST, "latest": LATEST}[cfg["reset"]], **kw)
        if not cfg["group"] and cfg["block_n"]:
            raise ValueError("block size needs a group")

    def buf_index(self, size):
        return self.sizes.index(size) if size in self.sizes else -size

    def processor(self, consumer, msgs):
        if self.proc_d is not None and not self.proc_d.called:
            self.overlap = True
        self.act(["proc", [m.offset for m in msgs]])
        if self.cfg["sync"]:
            if self.arm_stop:
                self.arm_stop = False
                consumer.stop()       # stop() from inside the processor
            return None
        self.proc_d = defer.Deferred()
        return self.proc_d

    def _wrap_clock(self):
        orig = self.clock.callLater

        def call_later(delay, fn, *a, **kw):
            f = sys._getframe(1)
            name = f.f_code.co_name
            tag = None
            if name == "_retry_fetch":
                tag = ("retry",)
            elif name == "_handle_commit_error":
                tag = ("cretry",)
            elif name in ("_scheduleFrom", "_reschedule"):
                tag = ("tick",)
            dc = orig(delay, fn, *a, **kw)
            self.timer_tags[id(dc)] = tag
            if tag and tag[0] != "tick":
                self.act(["timer", int(round(delay * 1e6))])
            return dc
        self.clock.callLater = call_later

    def act(self, a):
        self.acts.append(a)

    def _timer(self, tag):
        for dc in self.clock.getDelayedCalls():
            if self.timer_tags.get(id(dc)) == tag:
                return dc
        return None

    def _watch(self, who, d):
        def cb(res):
            self.act(["fire", who, "ok", res if isinstance(res, int) else -1])

        def eb(f):
            self.act(["fire", who, "fail", 0])
        d.addCallbacks(cb, eb)

    def _pend(self, kind):
        d = self.client.pending.get(kind)
        return d if d is not None and not d.called else None

    # which calls the driver may make next is read from the consumer itself; the verdict never uses these
    @property
    def running(self):
        return self.consumer._start_d is not None

    @property
    def shutdown_pending(self):
        return self.consumer._shutdown_d is not None

    def possible(self, e):
        a = e["a"]
        c = self.consumer
        if a == "Start":
            return not self.running and not (e["x"] == COMMITTED and not self.cfg["group"])
        if a == "Stop":
            return self.running and not self.shutdown_pending
        if a in ("Shutdown",):
            return True
        if a == "Commit":
            return self.running
        if a in ("OffsetsDone", "OffsetsErr"):
            return self._pend("offsets") is not None
        if a in ("OFetchDone", "OFetchErr"):
            return self._pend("ofetch") is not None
        if a in ("FetchDone", "FetchErr"):
            return self._pend("fetch") is not None
        if a == "ProcDone":
            return self.proc_d is not None and not self.proc_d.called
        if a == "RetryFire":
            return self._timer(("retry",)) is not None
        if a == "CommitDone":
            return self._pend("commit") is not None
        if a == "CommitRetry":
            return self._timer(("cretry",)) is not None
        if a == "Tick":
            return self._timer(("tick",)) is not None
        if a == "ArmStop":
            return self.cfg["sync"] and not self.arm_stop and self.running and not self.shutdown_pending
        return False

    def _fire(self, dc):
        """fire exactly this delayed call (a zero-delay re-fetch may be due at the same instant and must not ride along)"""
        fn, args, kw = dc.func, dc.args, dc.kw
        dc.cancel()
        fn(*args, **kw)

    def step(self, e):
        from afkak import common as C

        a, x, w, k = e["a"], e["x"], e.get("w", []), e.get("k", "")
        if not self.possible(e):
            self.steps.append({"e": dict(e, a="Unexecutable"), "o": {"acts": [], "exc": "", "lp": -1, "lc": -1, "pending": 0, "overlap": False, "bad": False}, "was": e})
            return False
        self.acts = []
        exc = ""
        c = self.consumer
        try:
            if a == "Start":
                self._watch("start", c.start(x))
            elif a == "Stop":
                c.stop()
            elif a == "Shutdown":
                self._watch("shutdown", c.shutdown())
            elif a == "Commit":
                self._watch(k, c.commit())
            elif a == "OffsetsDone":
                self._pend("offsets").callback([C.OffsetResponse("t", 0, 0, (x,))])
            elif a == "OFetchDone":
                self._pend("ofetch").callback([C.OffsetFetchResponse("t", 0, x, b"", 0)])
            elif a in ("OffsetsErr", "OFetchErr"):
                self._pend("offsets" if a == "OffsetsErr" else "ofetch").errback(failure.Failure(C.RequestTimedOutError("scripted")))
            elif a == "FetchDone":
                if w == [-1]:
                    msgs = TooSmallIter()
                elif w and w[-1] == BAD:
                    msgs = bad_tail_iter([C.OffsetAndMessage(o, C.Message(0, 0, None, b"v%d" % o)) for o in w[:-1]])
                else:
                    msgs = iter([C.OffsetAndMessage(o, C.Message(0, 0, None, b"v%d" % o)) for o in w])
                self._pend("fetch").callback([C.FetchResponse("t", 0, 0, 100, msgs)])
            elif a == "FetchErr":
                err = C.OffsetOutOfRangeError("scripted") if k == "range" else C.RequestTimedOutError("scripted")
                self._pend("fetch").errback(failure.Failure(err))
            elif a == "ProcDone":
                if x == 1:
                    self.proc_d.callback(None)
                elif x == 2:
                    self.proc_d.errback(failure.Failure(defer.CancelledError()))      # the processor's own cancellation
                else:
                    self.proc_d.errback(failure.Failure(ValueError("processor failed")))
            elif a == "RetryFire":
                self._fire(self._timer(("retry",)))
            elif a == "CommitRetry":
                self._fire(self._timer(("cretry",)))
            elif a == "Tick":
                self._fire(self._timer(("tick",)))
            elif a == "ArmStop":
                self.arm_stop = True
            elif a == "CommitDone":
                d = self._pend("commit")
                if k == "ok":
                    d.callback([C.OffsetCommitResponse("t", 0, 0)])
                elif k == "retriable":
                    d.errback(failure.Failure(C.RequestTimedOutError("scripted")))
                else:
                    d.errback(failure.Failure(C.IllegalGeneration("scripted")))
            else:
                raise ValueError(a)
        except Exception as ex:
            exc = "%s: %s" % (type(ex).__name__, ex)
        lp, lc = c.last_processed_offset, c.last_committed_offset
        pending = sum(1 for dc in self.clock.getDelayedCalls() if (self.timer_tags.get(id(dc)) or ("",))[0] in ("retry", "cretry", "tick"))
        self.steps.append({"e": {"a": a, "x": x, "w": w, "k": k}, "o": {"acts": self.acts, "exc": exc, "lp": -1 if lp is None else lp,
                                                                   "lc": -1 if lc is None else lc, "pending": pending,
                                                                   "overlap": self.overlap, "bad": False}})
        return True

    def result(self):
        return {"cfg": self.cfg["name"], "steps": self.steps}


def execute(cfg, events):
    run = ConsumerRun(cfg)
    for e in events:
        if not run.step(e):
            break
    return run.result()


def random_run(cfg, seed, length):
    rng = random.Random(seed)
    run = ConsumerRun(cfg)
    log = cfg["log"]
    ncommit = 0
    for _ in range(length):
        cands = []

        def add(w, a, x=0, win=None, k=""):
            e = {"a": a, "x": x, "w": win or [], "k": k}
            if run.possible(e):
                cands.append((w, e))
        add(4, "Start", rng.choice([EARLIEST, LATEST, COMMITTED, log[0], log[0] + 1, log[-1] + 1]))
        add(0.6, "Stop")
        add(0.5, "Shutdown")
        if ncommit < 3 and cfg["group"]:
            add(1, "Commit", 0, None, "c%d" % (ncommit + 1))
        add(5, "OffsetsDone", rng.choice([log[0], log[-1] + 1]))
        add(1.5, "OffsetsErr")
        add(5, "OFetchDone", rng.choice([-1] + log))
        add(1.5, "OFetchErr")
        fo = run.consumer._fetch_offset if isinstance(run.consumer._fetch_offset, int) else 0
        after = [o for o in log if o >= fo]
        before = [o for o in log if o < fo]
        k = rng.randint(0, min(3, len(after)))
        pre = before[-1:] if before and rng.random() < 0.3 else []
        win = pre + after[:k]
        if rng.random() < 0.12:
            win = [-1]
        elif rng.random() < 0.1 and run.consumer._msg_block_d is None:
            win = win + [BAD]
        add(8, "FetchDone", 0, win)
        add(1.5, "FetchErr", 0, None, rng.choice(["range", "kafka", "kafka"]))
        add(6, "ProcDone", 1 if rng.random() < 0.85 else rng.choice([0, 0, 2]))
        add(5, "RetryFire")
        add(5, "CommitDone", 0, None, rng.choice(["ok", "ok", "ok", "retriable", "fenced"]))
        add(3, "CommitRetry")
        add(1.5, "Tick")
        add(0.5, "ArmStop")
        if not cands:
            break
        tot = sum(w for w, _ in cands)
        r = rng.random() * tot
        for w, e in cands:
            r -= w
            if r <= 0:
                break
        if e["a"] == "Commit":
            ncommit += 1
        run.step(e)
    return run.result()
