"""Scenario family `client`: a real KafkaClient (with real broker clients and protocols) on the
simulated network and cluster.  Events are those of spec/ClientRouting.tla."""
import random
import struct

from twisted.internet import defer

from . import kwire, sim, simkafka

TIMEOUT_S = 10.0
RETRY_S = 0.5
TPS = [("a", 0), ("a", 1), ("b", 0)]
NOCB = None


def addr(b, gen):
    return ("k%d" % b, 9000 + b + 100 * (gen - 1))


class Shuffler:
    """Stands in for the `random` module inside afkak.client: shuffles are either forced to the
    order the schedule names or drawn from a seeded generator, and always logged."""

    def __init__(self, rng):
        self.rng = rng
        self.force_ord = None
        self.force_bord = None
        self.log = []

    def shuffle(self, lst):
        if lst and isinstance(lst[0], tuple):          # bootstrap (host, port) pairs
            key = lambda hp: 10 + int(hp[0][1:])
            want = self.force_bord
            kind = "bord"
        else:
            key = lambda n: n
            want = self.force_ord
            kind = "ord"
        if want:
            pos = {v: i for i, v in enumerate(want)}
            lst.sort(key=lambda x: pos.get(key(x), 99))
        else:
            self.rng.shuffle(lst)
        self.log.append((kind, [key(x) for x in lst]))

    def __getattr__(self, name):
        return getattr(random, name)


class ClientRun:
    def __init__(self, seed=0, disconnect_on_timeout=False, discovery=False):
        import afkak.client as ac
        from afkak.client import KafkaClient

        self.ac = ac
        self.clock = sim.SimClock()
        self.net = sim.SimNet()
        self.cluster = simkafka.Cluster(self.net)
        self.gen = {1: 1, 2: 1, 3: 1}
        for b in (1, 2, 3):
            h, p = addr(b, 1)
            self.cluster.add_broker(b, h, p)
        self.cluster.add_topic("a", {0: 1, 1: 2})
        self.cluster.add_topic("b", {0: 1})
        self.cluster.coordinator["g"] = 2
        self.shuffler = Shuffler(random.Random(seed))
        self._orig_random = ac.random
        ac.random = self.shuffler
        self.client = KafkaClient("k1:9001,k2:9002", timeout=TIMEOUT_S * 1000, reactor=self.clock,
                                  endpoint_factory=self.net.endpoint_factory, retry_policy=lambda f: RETRY_S,
                                  enable_protocol_version_discovery=discovery, disconnect_on_timeout=disconnect_on_timeout)
        self.issued = []
        orig = self.client._make_request_to_broker

        def mrtb(broker, correlationId, request, *a, **kw):
            self.issued.append(self._desc(broker.node_id, request))
            return orig(broker, correlationId, request, *a, **kw)

        self.client._make_request_to_broker = mrtb
        orig_boot = self.client._send_bootstrap_request

        def boot(request):
            self._boot_request = request
            return orig_boot(request)

        self.client._send_bootstrap_request = boot
        self._boot_request = None
        self.ops = []             # Deferreds by op index (1-based)
        self.fired = []
        self.closed = False
        self.close_fired = False
        self.trace = []
        self.wire = []
        self._delays = self.clock.delays

    def restore(self):
        self.ac.random = self._orig_random

    # -- describing requests
    @staticmethod
    def _desc(tgt, raw):
        try:
            r = kwire.parse_request(raw)
        except kwire.WireError:
            return [tgt, "unparsable", [], []]
        api, b = r["api"], r["body"]
        if api == kwire.METADATA:
            return [tgt, "meta", [], list(b["topics"])]
        if api == kwire.FIND_COORDINATOR:
            return [tgt, "coord", [], []]
        if api == kwire.PRODUCE:
            return [tgt, "produce", [[t["topic"], p["partition"]] for t in b["topics"] for p in t["partitions"]], []]
        if api == kwire.OFFSET_COMMIT:
            return [tgt, "commit", [], []]
        return [tgt, kwire.NAMES.get(api, str(api)), [], []]

    def _is_boot(self, tr):
        return not hasattr(tr.attempt.factory, "node_id")

    def _target(self, tr):
        c = self.cluster.conns[tr]
        return 10 + c.broker.node if self._is_boot(tr) else tr.attempt.factory.node_id

    def _conn_for(self, t):
        """the live connection the model calls target t (broker client t, or bootstrap host t).
        Every bootstrap request has its own connection: the model's queue for a bootstrap host is
        the arrival order of the requests over all of them."""
        best = None
        for tr, c in self.cluster.conns.items():
            if not tr.connected or tr.disconnecting:
                continue
            if t >= 10 and self._is_boot(tr) and c.broker.node == t - 10 and (tr.attempt.host, tr.attempt.port) == addr(t - 10, 1):
                p = c.oldest()
                if p is None:
                    continue
                k = self.cluster.received.index(p)
                if best is None or k < best[0]:
                    best = (k, c)
            if t < 10 and not self._is_boot(tr) and tr.attempt.factory.node_id == t and getattr(tr.attempt.factory, "_dDown", None) is None:
                return c
        return best[1] if best else None

    def _closing_transports(self, b):
        return [tr for tr in self.net.transports if tr.connected and tr.disconnecting and not self._is_boot(tr)
                and tr.attempt.factory.node_id == b and getattr(tr.attempt.factory, "_dDown", None) is not None]

    # -- auto-pilot: connection management and byte delivery are not scheduled
    def settle(self):
        for _ in range(50):
            did = False
            # bootstrap connect attempts are observable issues
            for a in self.net.pending_attempts():
                if not hasattr(a.factory, "node_id") and not getattr(a, "_logged", False):
                    a._logged = True
                    hp = (a.host, a.port)
                    t = 11 if hp == addr(1, 1) else 12 if hp == addr(2, 1) else 0
                    self.issued.append([t, "boot", [], []])
            if self.cluster.autopilot_connects():
                did = True
            new = self.cluster.pump_all()
            for p in new:
                self.wire.append(self._desc(self._target(p.conn.tr), p.raw))
                did = True
            # requests that expect no answer are consumed silently by the broker
            for p in new:
                if p.req["api"] == kwire.PRODUCE and p.req["body"]["acks"] == 0:
                    self.cluster.answer(p)
            # connections the client asked to close: bootstrap ones and those dropped on timeout finish at once;
            # those of closed broker clients wait for an explicit Reap
            for tr in list(self.cluster.conns):
                if tr.connected and tr.disconnecting:
                    closed_client = (not self._is_boot(tr)) and getattr(tr.attempt.factory, "_dDown", None) is not None
                    if not closed_client:
                        tr.drop(clean=True)
                        did = True
            if not did:
                break

    def kick_backoff(self):
        """fire reconnect-backoff timers that exist now, once (connection management is instantaneous)"""
        for dc in list(self.clock.getDelayedCalls()):
            if self.clock.delays.get(id(dc)) == int(RETRY_S * 1e6):
                if dc.active():
                    dc.reset(0)
        self.clock.advance(0)

    def _delay_of(self, dc):
        return self._delays.get(id(dc))

    # -- which events are possible (from real state)
    def request_timers(self):
        return [dc for dc in self.clock.getDelayedCalls() if self._delays.get(id(dc)) == int(TIMEOUT_S * 1e6)]

    def possible(self, e):
        a, t = e["a"], e["t"]
        if a == "Answer":
            c = self._conn_for(t)
            return c is not None and c.oldest() is not None
        if a == "Timeout":
            return bool(self.request_timers())
        if a == "Drop":
            return self._conn_for(t) is not None
        if a == "Down":
            return self.cluster.brokers[t].up
        if a == "Up":
            return not self.cluster.brokers[t].up
        if a == "Readdress":
            return self.gen[t] == 1
        if a == "Retire":
            return self.cluster.brokers[t].listed
        if a == "MoveLeader":
            tp = e["pl"][0]
            return self.cluster.topics[tp[0]][tp[1]].leader != t
        if a == "MoveCoord":
            return self.cluster.coordinator["g"] != t
        if a == "Reap":
            return bool(self._closing_transports(t))
        if a == "Close":
            return not self.closed
        return True

    # -- op results in the model's terms
    def _watch(self, op, kind, d):
        from afkak import common as C

        def cb(res):
            if kind == "meta":
                # load_metadata_for_topics documents None as its report of a cancelled load
                self.fired.append([op, "ok", []] if res is not None else [op, "failed", "cancelled"])
            elif kind == "produce":
                self.fired.append([op, "ok", [[[r.topic, r.partition], r.error] for r in (res or [])]])
            else:
                self.fired.append([op, "ok", [r.error for r in res]])

        def eb(f):
            if f.check(C.FailedPayloadsError):
                resps, failed = f.value.args[0], f.value.args[1]
                if kind == "produce":
                    self.fired.append([op, "failed_payloads", [[[[r.topic, r.partition], r.error] for r in resps],
                                                               [[p.topic, p.partition] for p, _ in failed]]])
                else:
                    self.fired.append([op, "failed_payloads", [[], ["commit"]]])
                return
            v = f.value
            if isinstance(v, C.BrokerResponseError) and getattr(v, "errno", None) is not None and type(v) is not C.BrokerResponseError:
                det = v.errno
            elif f.check(C.KafkaUnavailableError):
                det = "unavailable"
            elif f.check(C.LeaderUnavailableError):
                det = "leader_unavailable"
            elif f.check(C.PartitionUnavailableError):
                det = "partition_unavailable"
            elif f.check(C.ClientError):
                det = "closed"
            else:
                det = type(v).__name__
            if isinstance(det, int) and kind == "commit" and f.check(C.CoordinatorNotAvailable) and not f.value.args[1:]:
                det = "coordinator_unavailable"
            self.fired.append([op, "failed", det])

        d.addCallbacks(cb, eb)

    def step(self, e):
        from afkak import common as C
        from afkak.kafkacodec import create_message

        a, t, x, pl = e["a"], e["t"], e["x"], e["pl"]
        if not self.possible(e):
            self.trace.append({"e": dict(e, a="Unexecutable"), "o": {}, "was": e})
            return False
        self.fired, self.issued, self.wire, self.kick = [], [], [], []
        self.net.drain_log()
        self.shuffler.log = []
        self.shuffler.force_ord = e.get("ord") if e.get("forced") else None
        self.shuffler.force_bord = e.get("bord") if e.get("forced") else None
        self._delays = self.clock.delays
        exc = ""
        answered = []
        close0 = self.close_fired
        try:
            if a == "CallMeta":
                d = self.client.load_metadata_for_topics(*x)
                self.ops.append(d)
                self._watch(len(self.ops), "meta", d)
            elif a == "CallProduce":
                payloads = [C.ProduceRequest(tp[0], tp[1], [create_message(b"m-%s-%d" % (tp[0].encode(), tp[1]))]) for tp in pl]
                d = self.client.send_produce_request(payloads, acks=x[0], fail_on_error=bool(x[1]))
                self.ops.append(d)
                self._watch(len(self.ops), "produce", d)
            elif a == "CallCommit":
                d = self.client.send_offset_commit_request("g", [C.OffsetCommitRequest("a", 0, 5, -1, None)])
                self.ops.append(d)
                self._watch(len(self.ops), "commit", d)
            elif a == "Answer":
                c = self._conn_for(t)
                pnd = c.oldest()
                dsc = self._desc(0, pnd.raw)
                answered = [dsc[1], dsc[2], dsc[3]]
                self.cluster.answer(pnd, override=x or None)
            elif a == "Timeout":
                due = min(dc.getTime() for dc in self.request_timers())
                guard = 0
                while True:
                    nxt = self.clock.next_due()
                    if nxt is None or nxt.getTime() > due + 1e-9:
                        break
                    self.clock.fire_next()
                    self.settle()
                    guard += 1
                    if guard > 2000:
                        raise RuntimeError("timer storm")
            elif a == "Drop":
                self._conn_for(t).tr.drop(clean=False)
            elif a == "Down":
                self.cluster.brokers[t].up = False
                self.cluster.drop_broker_conns(t)
            elif a == "Up":
                self.cluster.brokers[t].up = True
            elif a == "Readdress":
                self.gen[t] = 2
                self.cluster.brokers[t].host, self.cluster.brokers[t].port = addr(t, 2)
                self.cluster.drop_broker_conns(t)
            elif a == "Retire":
                self.cluster.brokers[t].listed = False
            elif a == "MoveLeader":
                self.cluster.topics[pl[0][0]][pl[0][1]].leader = t
            elif a == "MoveCoord":
                self.cluster.coordinator["g"] = t
            elif a == "Reap":
                self._closing_transports(t)[0].drop(clean=True)
            elif a == "Close":
                self.closed = True
                d = self.client.close()

                def fired(r):
                    self.close_fired = True
                    return r
                d.addBoth(fired)
            else:
                raise ValueError(a)
            self.settle()
            n_att = len(self.net.attempts)
            self.kick_backoff()
            self.settle()
            # reconnect attempts made now, after every state change of this event: (node, address generation)
            for a_ in self.net.attempts[n_att:]:
                if hasattr(a_.factory, "node_id"):
                    g_ = 1 if a_.port == 9000 + a_.factory.node_id else 2 if a_.port == 9100 + a_.factory.node_id else 0
                    if a_.host != "k%d" % a_.factory.node_id:
                        g_ = 0
                    self.kick.append([a_.factory.node_id, g_])
        except Exception as ex:
            exc = "%s: %s" % (type(ex).__name__, ex)
        lg = self.net.drain_log()
        lost = set()
        for r in lg:
            if r[0] == "lose":
                a_ = self.net.attempts[r[1] - 1]
                if hasattr(a_.factory, "node_id"):
                    lost.add(a_.factory.node_id)
        c = self.client
        leaders = []
        for tp in TPS:
            from afkak.common import TopicAndPartition
            k = TopicAndPartition(*tp)
            if k not in c.topics_to_brokers:
                leaders.append(-1)
            else:
                bm = c.topics_to_brokers[k]
                leaders.append(0 if bm is None else bm.node_id)
        coord = c.consumer_group_to_brokers.get("g")
        ords = [o for k, o in self.shuffler.log if k == "ord"]
        bords = [o for k, o in self.shuffler.log if k == "bord"]
        ord_ = (ords[0] + [b for b in (1, 2, 3) if b not in ords[0]]) if ords else [1, 2, 3]
        bord = bords[0] if bords else [11, 12]
        ambiguous = any(o != ords[0] for o in ords) or any(o != bords[0] for o in bords)
        o = {
            "issued": self.issued, "wire": self.wire, "fired": self.fired, "lost": sorted(lost),
            "closeFired": self.close_fired and not close0, "kick": self.kick,
            "cache": {"parts": {t_: ("known" if t_ in c.topic_partitions else "absent") for t_ in ("a", "b")},
                      "leader": leaders, "err": {t_: c.topic_errors.get(t_, -1) for t_ in ("a", "b")},
                      "coord": 0 if coord is None else coord.node_id},
            "exc": exc,
        }
        ev = {"a": a, "op": 0, "t": t, "x": x, "pl": pl, "ord": ord_, "bord": bord, "k": answered if a == "Answer" else []}
        self.trace.append({"e": ev, "o": o})
        if ambiguous:
            # two shuffles with different results inside one event: beyond what one event record can carry
            self.trace.pop()
            return False
        return True


def new_run(seed=0, dot=False):
    return ClientRun(seed, dot)


def execute(events, dot=False, forced=True):
    run = new_run(0, dot)
    try:
        for e in events:
            e = dict(e)
            e["forced"] = forced
            if not run.step(e):
                break
        return run.trace
    finally:
        run.restore()


EV0 = {"op": 0, "t": 0, "x": 0, "pl": [], "k": []}


PROFILES = {
    # weights per event kind; a kind that is absent is never drawn
    "general": {"CallMeta": 2, "CallProduce": 5, "CallCommit": 2, "Answer": 8, "Timeout": 2.5, "Drop": 1.2, "Down": 0.8,
                "Up": 1.5, "Readdress": 0.5, "MoveCoord": 0.5, "Retire": 0.7, "Reap": 3, "MoveLeader": 0.5, "Close": 0.5},
    # brokers leaving the cluster while connected: full refreshes prune their clients, connections close one by one
    "prune": {"CallMeta": 4, "CallProduce": 4, "Answer": 10, "Retire": 2.5, "Reap": 2, "Close": 0.8, "Timeout": 0.3},
    # silent and unreachable brokers: everything resolves by timers
    "timeouts": {"CallMeta": 2, "CallProduce": 5, "CallCommit": 2, "Answer": 3, "Timeout": 5, "Down": 1.5, "Up": 1,
                 "Readdress": 0.7, "Drop": 1, "Close": 0.3},
}


def random_run(seed, length, dot=False, max_ops=4, profile="general", prefix=()):
    """Seeded random scheduler; `prefix` (a TLC-found behaviour reaching a goal state) is executed first."""
    rng = random.Random(seed)
    run = new_run(seed, dot)
    W = PROFILES[profile]
    try:
        nops = 0
        for e in prefix:
            e = dict(e, forced=True)
            if e["a"].startswith("Call"):
                nops += 1
            if not run.step(e):
                return run.trace
        max_ops += nops
        for _ in range(length):
            cands = []

            def add(a, t=0, x=0, pl=(), scale=1.0):
                if a not in W:
                    return
                e = dict(EV0, a=a, t=t, x=x, pl=[list(p) for p in pl])
                if run.possible(e):
                    cands.append((W[a] * scale, e))
            if nops < max_ops and not run.closed:
                add("CallMeta", 0, [] if profile == "prune" else rng.choice([[], ["a"], ["b"], ["a", "b"]]))
                k = rng.choice([1, 1, 2, 2, 3])
                add("CallProduce", 0, [rng.choice([1, 1, 1, 0]), rng.random() < 0.5], rng.sample(TPS, 3 if profile == "prune" else k))
                add("CallCommit")
            elif nops < max_ops + 1 and run.closed:
                add("CallMeta", 0, [], (), 0.5)
                add("CallProduce", 0, [1, True], [TPS[0]], 0.2)
            for t in (1, 2, 3, 11, 12):
                add("Answer", t, 0 if profile == "prune" else rng.choice([0, 0, 0, 0, 0, 7, 5 if t > 3 else 6, 15, 14]))
            add("Timeout")
            for b in (1, 2, 3):
                for a in ("Drop", "Down", "Up", "Readdress", "MoveCoord", "Retire", "Reap"):
                    add(a, b)
                add("MoveLeader", b, 0, [rng.choice(TPS)])
            add("Close")
            if not cands:
                break
            tot = sum(w for w, _ in cands)
            r = rng.random() * tot
            for w, e in cands:
                r -= w
                if r <= 0:
                    break
            if e["a"].startswith("Call"):
                nops += 1
            if not run.step(e):
                break
        return run.trace
    finally:
        run.restore()
