"""Checks C04 (requests), C05 (responses, message sets) and the codec part of C12 against
the vectors TLC computes from spec/Wire.tla, MessageSet.tla and CRC32.tla."""
import itertools
import json
import random
import signal
import struct
import time
import tracemalloc

from . import kwire, tlc, wirevec
from .report import run_check


# ----------------------------------------------------------------- adapters
def s(b):
    return b.decode("utf-8")


def kw_to_vec(x):
    """kwire's abstract syntax -> the vectors' (bytes strings, parts/msgs names)."""
    if isinstance(x, dict):
        out = {}
        for k, v in x.items():
            k2 = {"partitions": "parts", "messages": "msgs"}.get(k, k)
            out[k2] = kw_to_vec(v)
        return out
    if isinstance(x, tuple) and len(x) == 2 and isinstance(x[1], dict) and "magic" in x[1]:
        return {"off": x[0], "m": kw_to_vec(x[1])}
    if isinstance(x, (list, tuple)):
        return [kw_to_vec(i) for i in x]
    if isinstance(x, str):
        return x.encode("utf-8")
    return x


def vec_to_kw_resp(api, ver, b):
    """vector response body -> kwire.enc_response input"""
    def tp(t, fn):
        return {"topic": s(t["topic"]), "partitions": [fn(p) for p in t["parts"]]}

    if api == 0:
        return {"throttle": b["throttle"], "topics": [tp(t, lambda p: p) for t in b["topics"]]}
    if api == 1:
        return {"throttle": b["throttle"], "topics": [tp(t, lambda p: {
            "partition": p["partition"], "error": p["error"], "hwm": p["hwm"],
            "records": kwire.enc_message_set([(e["off"], e["m"]) for e in p["msgs"]])}) for t in b["topics"]]}
    if api in (2, 8, 9):
        return {"topics": [tp(t, lambda p: p) for t in b["topics"]]}
    if api == 3:
        return {"brokers": [{"node": n["node"], "host": s(n["host"]), "port": n["port"]} for n in b["brokers"]],
                "topics": [{"error": t["error"], "topic": s(t["topic"]), "partitions": t["parts"]} for t in b["topics"]]}
    if api == 10:
        return {"error": b["error"], "node": b["node"], "host": s(b["host"]), "port": b["port"]}
    if api == 11:
        return {"error": b["error"], "generation": b["generation"], "protocol": s(b["protocol"]), "leader": s(b["leader"]),
                "member": s(b["member"]), "members": [{"member": s(m["member"]), "metadata": m["metadata"]} for m in b["members"]]}
    if api == 18:
        return {"error": b["error"], "versions": b["versions"]}
    return b


def afkak_msg(m):
    from afkak.common import Message
    return Message(m["magic"], m["attrs"], m["key"], m["value"], m.get("ts"))


def msg_vec(m):
    """afkak Message -> vector form"""
    d = {"magic": m.magic, "attrs": m.attributes, "key": m.key, "value": m.value}
    if m.magic == 1:
        d["ts"] = m.timestamp
    return d


def expressible(x):
    """Can the request be stated through afkak's flat payload API? (a topic with no partitions cannot)"""
    if x["api"] in (0, 1, 2, 8, 9):
        return all(t["parts"] for t in x["body"]["topics"])
    return True


def afkak_encode(x):
    from afkak import common as C
    from afkak.kafkacodec import KafkaCodec as K

    api, ver, corr, cid, b = x["api"], x["ver"], x["corr"], x["client"], x["body"]
    if api == 0:
        pl = [C.ProduceRequest(s(t["topic"]), p["partition"], [afkak_msg(e["m"]) for e in p["msgs"]])
              for t in b["topics"] for p in t["parts"]]
        return K.encode_produce_request(cid, corr, pl, acks=b["acks"], timeout=b["timeout"], api_version=ver)
    if api == 1:
        pl = [C.FetchRequest(s(t["topic"]), p["partition"], p["offset"], p["max_bytes"])
              for t in b["topics"] for p in t["parts"]]
        return K.encode_fetch_request(cid, corr, pl, max_wait_time=b["max_wait"], min_bytes=b["min_bytes"], api_version=ver)
    if api == 2:
        pl = [C.OffsetRequest(s(t["topic"]), p["partition"], p["time"], p["max_offsets"])
              for t in b["topics"] for p in t["parts"]]
        return K.encode_offset_request(cid, corr, pl)
    if api == 3:
        return K.encode_metadata_request(cid, corr, [s(t) for t in b["topics"]])
    if api == 8:
        pl = [C.OffsetCommitRequest(s(t["topic"]), p["partition"], p["offset"], p["timestamp"], p["metadata"])
              for t in b["topics"] for p in t["parts"]]
        return K.encode_offset_commit_request(cid, corr, s(b["group"]), b["generation"], s(b["member"]), pl)
    if api == 9:
        pl = [C.OffsetFetchRequest(s(t["topic"]), p) for t in b["topics"] for p in t["parts"]]
        return K.encode_offset_fetch_request(cid, corr, s(b["group"]), pl)
    if api == 10:
        return K.encode_consumermetadata_request(cid, corr, s(b["group"]))
    if api == 11:
        return K.encode_join_group_request(cid, corr, C._JoinGroupRequest(
            s(b["group"]), b["session_timeout"], s(b["member"]), s(b["protocol_type"]),
            [C._JoinGroupRequestProtocol(s(p["name"]), p["metadata"]) for p in b["protocols"]]))
    if api == 14:
        return K.encode_sync_group_request(cid, corr, C._SyncGroupRequest(
            s(b["group"]), b["generation"], s(b["member"]),
            [C._SyncGroupRequestMember(s(a["member"]), a["assignment"]) for a in b["assignments"]]))
    if api == 12:
        return K.encode_heartbeat_request(cid, corr, C._HeartbeatRequest(s(b["group"]), b["generation"], s(b["member"])))
    if api == 13:
        return K.encode_leave_group_request(cid, corr, C._LeaveGroupRequest(s(b["group"]), s(b["member"])))
    if api == 18:
        return K.encode_api_versions_request(cid, corr, C.ApiVersionRequest(K.API_VERSIONS_KEY, 0))
    raise ValueError(api)


def afkak_decode(x, data):
    """Decode a response with afkak and express the result in the vectors' terms, keeping only
    the fields afkak's response types have."""
    from afkak.kafkacodec import KafkaCodec as K

    api, ver = x["api"], x["ver"]
    if api == 0:
        return [(r.topic, r.partition, r.error, r.offset) for r in K.decode_produce_response(data, api_version=ver)]
    if api == 1:
        return [(r.topic, r.partition, r.error, r.highwaterMark,
                 [{"off": om.offset, "m": msg_vec(om.message)} for om in r.messages])
                for r in K.decode_fetch_response(data, api_version=ver)]
    if api == 2:
        return [(r.topic, r.partition, r.error, list(r.offsets)) for r in K.decode_offset_response(data)]
    if api == 3:
        br, tp = K.decode_metadata_response(data)
        return ({n: (m.node_id, m.host, m.port) for n, m in br.items()},
                {t: (m.topic, m.topic_error_code,
                     {p: (pm.topic, pm.partition, pm.partition_error_code, pm.leader, list(pm.replicas), list(pm.isr))
                      for p, pm in m.partition_metadata.items()}) for t, m in tp.items()})
    if api == 8:
        return [(r.topic, r.partition, r.error) for r in K.decode_offset_commit_response(data)]
    if api == 9:
        return [(r.topic, r.partition, r.offset, r.metadata, r.error) for r in K.decode_offset_fetch_response(data)]
    if api == 10:
        r = K.decode_consumermetadata_response(data)
        return (r.error, r.node_id, r.host, r.port)
    if api == 11:
        r = K.decode_join_group_response(data)
        return (r.error, r.generation_id, r.group_protocol, r.leader_id, r.member_id,
                [(m.member_id, m.member_metadata) for m in r.members])
    if api == 14:
        r = K.decode_sync_group_response(data)
        return (r.error, r.member_assignment)
    if api == 12:
        return (K.decode_heartbeat_response(data).error,)
    if api == 13:
        return (K.decode_leave_group_response(data).error,)
    if api == 18:
        r = K.decode_api_versions_response(data)
        return (r.error_code, [(v.api_key, v.min_version, v.max_version) for v in r.api_versions])
    raise ValueError(api)


def expected_decode(x):
    api, ver, b = x["api"], x["ver"], x["body"]

    def flat(fn):
        return [fn(s(t["topic"]), p) for t in b["topics"] for p in t["parts"]]
    if api == 0:
        return flat(lambda t, p: (t, p["partition"], p["error"], p["offset"]))
    if api == 1:
        return flat(lambda t, p: (t, p["partition"], p["error"], p["hwm"], p["msgs"]))
    if api == 2:
        return flat(lambda t, p: (t, p["partition"], p["error"], p["offsets"]))
    if api == 3:
        return ({n["node"]: (n["node"], s(n["host"]), n["port"]) for n in b["brokers"]},
                {s(t["topic"]): (s(t["topic"]), t["error"],
                                 {p["partition"]: (s(t["topic"]), p["partition"], p["error"], p["leader"], p["replicas"], p["isr"])
                                  for p in t["parts"]}) for t in b["topics"]})
    if api == 8:
        return flat(lambda t, p: (t, p["partition"], p["error"]))
    if api == 9:
        return flat(lambda t, p: (t, p["partition"], p["offset"], p["metadata"], p["error"]))
    if api == 10:
        return (b["error"], b["node"], s(b["host"]), b["port"])
    if api == 11:
        return (b["error"], b["generation"], s(b["protocol"]), s(b["leader"]), s(b["member"]),
                [(s(m["member"]), m["metadata"]) for m in b["members"]])
    if api == 14:
        return (b["error"], b["assignment"])
    if api in (12, 13):
        return (b["error"],)
    if api == 18:
        return (b["error"], [tuple(v) for v in b["versions"]])
    raise ValueError(api)


def norm_order(body):
    """request body with topic and partition arrays sorted (Kafka does not care about their order)"""
    b = dict(body)
    if "topics" in b and b["topics"] and isinstance(b["topics"][0], dict):
        b["topics"] = sorted(({"topic": t["topic"], "parts": sorted(t["parts"], key=lambda p: json.dumps(p, default=repr, sort_keys=True))}
                              for t in b["topics"]), key=lambda t: t["topic"])
    elif "topics" in b:
        b["topics"] = sorted(b["topics"])
    return b


def name_of(x):
    return "%s v%d" % (kwire.NAMES.get(x["api"], x["api"]), x["ver"])


def shape_sig(x):
    b = x["body"]
    if isinstance(b, dict) and "topics" in b and b["topics"] and isinstance(b["topics"][0], dict):
        return "%s shape=%s" % (name_of(x), [len(t["parts"]) for t in b["topics"]])
    return name_of(x)


# ----------------------------------------------------------------- resource-bounded decoding
class Timeout(Exception):
    pass


def bounded(fn, limit_s=2.0, cap=None):
    """Run fn() (which must fully consume any iterator it creates) under a wall-clock limit.
    Returns (outcome, detail) with outcome in value|exception|timeout."""
    def on_alarm(signum, frame):
        raise Timeout()
    old = signal.signal(signal.SIGALRM, on_alarm)
    signal.setitimer(signal.ITIMER_REAL, limit_s)
    try:
        try:
            v = fn()
            return "value", v
        except Timeout:
            return "timeout", None
        except Exception as e:
            return "exception", type(e).__name__
    finally:
        signal.setitimer(signal.ITIMER_REAL, 0)
        signal.signal(signal.SIGALRM, old)


def consume_msgset(data, cap):
    from afkak.kafkacodec import KafkaCodec as K
    out = []
    for om in K._decode_message_set_iter(data):
        out.append(om)
        if len(out) > cap:
            raise OverflowError("more than %d messages from %d bytes" % (cap, len(data)))
    return out


# ----------------------------------------------------------------- the checks
def cross_check_kwire(vecs):
    """The simulated brokers' codec must agree with the specification on every vector."""
    for v in vecs:
        x = v["x"]
        if v["kind"] == "req":
            p = kwire.parse_request(v["bytes"])
            got = {"api": p["api"], "ver": p["ver"], "corr": p["corr"],
                   "client": None if p["client"] is None else p["client"].encode("utf-8"), "body": kw_to_vec(p["body"])}
            for fld in ("replica",):
                if fld in got["body"]:
                    if got["body"].pop(fld) != -1:
                        raise tlc.MachineryError("kwire: replica id")
            want = dict(x)
            if x["api"] == 18:
                want = dict(x, body={})
            if got != want:
                raise tlc.MachineryError("kwire.parse_request disagrees with Wire.tla on %s:\n got %r\nwant %r" % (name_of(x), got, want))
        elif v["kind"] == "resp":
            enc = kwire.enc_response(x["api"], x["ver"], x["corr"], vec_to_kw_resp(x["api"], x["ver"], x["body"]))
            if enc != v["bytes"]:
                raise tlc.MachineryError("kwire.enc_response disagrees with Wire.tla on %s %r" % (name_of(x), x))
        elif v["kind"] == "msgset":
            ents = [(e["off"], e["m"]) for e in x]
            if kwire.enc_message_set(ents) != v["bytes"] or kwire.parse_message_set(v["bytes"]) != ents:
                raise tlc.MachineryError("kwire message set codec disagrees with Wire.tla on %r" % (x,))
        elif v["kind"] == "wrapset":
            if kw_to_vec(kwire.flatten(build_wrapset(x))) != v["flat"]:
                raise tlc.MachineryError("kwire.flatten disagrees with MessageSet.tla on %r" % (x,))


def build_wrapset(entries):
    """wrapset vector structure -> kwire entries with real (gzip) wrappers"""
    out = []
    for e in entries:
        m = e["m"]
        if "inner" in m:
            out.append((e["off"], kwire.wrapper(m["magic"], build_wrapset(m["inner"]), ts=m.get("ts", 0), codec=m["codec"])))
        else:
            out.append((e["off"], m))
    return out


def check_requests(chk, vecs):
    n = 0
    for v in vecs:
        if v["kind"] != "req":
            continue
        x = v["x"]
        if not expressible(x):
            continue
        n += 1
        chk.count("C04.parse")
        try:
            got = afkak_encode(x)
        except Exception as e:
            chk.violation("C04.parse", name_of(x) + " raises", "encoding %s raises %s: %s  (%r)" % (name_of(x), type(e).__name__, e, x),
                          {"family": "vectors", "vector": repr(x)})
            continue
        if got == v["bytes"]:
            continue
        # not byte-identical: acceptable only if an independent parse gives the same request up to array order
        why = None
        try:
            p = kwire.parse_request(got)
            pv = {"api": p["api"], "ver": p["ver"], "corr": p["corr"],
                  "client": None if p["client"] is None else p["client"].encode("utf-8"), "body": kw_to_vec(p["body"])}
            pv["body"].pop("replica", None)
            want = dict(x, body=({} if x["api"] == 18 else x["body"]))
            if dict(pv, body=norm_order(pv["body"])) == dict(want, body=norm_order(want["body"])):
                chk.count("C04.parse (equal up to array order)")
                continue
            why = "parses to %r" % (pv,)
        except kwire.WireError as e:
            why = "does not parse: %s" % e
        chk.violation("C04.parse", shape_sig(x) if x["api"] != 18 else name_of(x),
                      "%s: afkak emits %s, the grammar gives %s; afkak's bytes %s (request %r)" %
                      (name_of(x), got.hex(), v["bytes"].hex(), why, x), {"family": "vectors", "vector": repr(x)})
    return n


def check_responses(chk, vecs):
    n = 0
    for v in vecs:
        if v["kind"] != "resp":
            continue
        x = v["x"]
        n += 1
        chk.count("C05.resp")
        want = expected_decode(x)
        try:
            got = afkak_decode(x, v["bytes"])
        except Exception as e:
            got = "raises %s: %s" % (type(e).__name__, e)
        if got != want:
            sig = name_of(x)
            if x["api"] == 1:
                mags = sorted({e["m"]["magic"] for t in x["body"]["topics"] for p in t["parts"] for e in p["msgs"]})
                sig += " magic=%s" % mags
            if x["api"] == 18:
                sig += " error%s0" % ("=" if x["body"]["error"] == 0 else "!=")
            chk.violation("C05.resp", sig, "%s: decoding %s gives %r, encoded value was %r" % (name_of(x), v["bytes"].hex(), got, want),
                          {"family": "vectors", "vector": repr(x), "bytes": v["bytes"].hex()})
    return n


def check_msgsets(chk, vecs):
    from afkak.kafkacodec import KafkaCodec as K
    n = 0
    for v in vecs:
        if v["kind"] == "msgset":
            x = v["x"]
            n += 1
            chk.count("C05.msgset")
            try:
                got = [{"off": om.offset, "m": msg_vec(om.message)} for om in K._decode_message_set_iter(v["bytes"])]
            except Exception as e:
                got = "raises %s: %s" % (type(e).__name__, e)
            if got != x:
                chk.violation("C05.msgset", "plain magic=%s" % sorted({e["m"]["magic"] for e in x}),
                              "message set %s decodes to %r, encoded %r" % (v["bytes"].hex(), got, x),
                              {"family": "vectors", "vector": repr(x)})
            # afkak's own encoder then decoder is the identity (and gives the grammar's bytes)
            if x:
                chk.count("C05.roundtrip")
                base = x[0]["off"]
                try:
                    enc = K._encode_message_set([afkak_msg(e["m"]) for e in x], offset=base)
                    back = [{"off": om.offset, "m": msg_vec(om.message)} for om in K._decode_message_set_iter(enc)]
                except Exception as e:
                    enc, back = b"", "raises %s: %s" % (type(e).__name__, e)
                if enc != v["bytes"] or back != x:
                    chk.violation("C05.roundtrip", "plain magic=%s" % sorted({e["m"]["magic"] for e in x}),
                                  "encode->decode of %r gives %r (bytes %s, grammar %s)" % (x, back, enc.hex(), v["bytes"].hex()),
                                  {"family": "vectors", "vector": repr(x)})
        elif v["kind"] == "wrapset":
            x = v["x"]
            n += 1
            chk.count("C05.abs_offsets")
            data = kwire.enc_message_set(build_wrapset(x))
            try:
                got = [{"off": om.offset, "m": msg_vec(om.message)} for om in K._decode_message_set_iter(data)]
            except Exception as e:
                got = "raises %s: %s" % (type(e).__name__, e)
            if got != v["flat"]:
                offs_ok = isinstance(got, list) and [g["off"] for g in got] == [f["off"] for f in v["flat"]]
                mg = x[0]["m"]["magic"]
                depth2 = any("inner" in i["m"] for e in x if "inner" in e["m"] for i in e["m"]["inner"])
                chk.violation("C05.abs_offsets" if not offs_ok else "C05.msgset",
                              "wrapper magic=%d%s" % (mg, " nested" if depth2 else ""),
                              "compressed set %r decodes to %r, the protocol defines %r" % (x, got, v["flat"]),
                              {"family": "vectors", "vector": repr(x)})
    return n


def check_truncation(chk, vecs):
    from afkak.common import ConsumerFetchSizeTooSmall
    n = 0
    for v in vecs:
        if v["kind"] != "msgset" or not v["x"]:
            continue
        data = v["bytes"]
        for k in range(len(data) + 1):
            n += 1
            want_n = v["complete_within"][k]
            oc, val = bounded(lambda: consume_msgset(data[:k], 10 * len(data) + 100))
            if want_n >= 1 or k == 0:
                want = v["x"][:want_n]
                got = [{"off": om.offset, "m": msg_vec(om.message)} for om in val] if oc == "value" else "%s %s" % (oc, val)
                ok = got == want
            else:
                want = "ConsumerFetchSizeTooSmall"
                got = val if oc == "exception" else "%s %r" % (oc, val)
                ok = oc == "exception" and val == "ConsumerFetchSizeTooSmall"
            chk.count("C12.truncate")
            if not ok:
                chk.violation("C12.truncate", "complete=%d %s" % (want_n, "some" if want_n else ("empty" if k == 0 else "none")),
                              "message set cut at byte %d of %d: decoder gives %r, expected %r" % (k, len(data), got, want),
                              {"family": "vectors", "bytes": data.hex(), "cut": k})
    return n


# -- CRC: solve bursts with a prescribed syndrome (GF(2) linear algebra on the CRC of a window)
def _crc_delta(msg, pos_bits, pattern_bits):
    """crc(body ^ e) ^ crc(body) for the burst e (bit offsets into body)."""
    body = bytearray(msg[4:])
    for b in pattern_bits:
        body[(pos_bits + b) // 8] ^= 0x80 >> ((pos_bits + b) % 8)
    return kwire.crc32(bytes(body)) ^ kwire.crc32(msg[4:])


def solved_bursts(msg, start_bit, rng):
    """For the 32-bit window at `start_bit` of the body: for each of the 32 CRC bits, the burst whose
    CRC syndrome is exactly that bit (the map window -> syndrome is a bijection on GF(2)^32)."""
    nbits = (len(msg) - 4) * 8
    if start_bit + 32 > nbits:
        return []
    cols = [_crc_delta(msg, start_bit, [i]) for i in range(32)]
    # Gauss-Jordan: express each unit syndrome as a combination of columns
    rows = [(cols[i], 1 << i) for i in range(32)]
    basis = {}
    for val, comb in rows:
        for bit in sorted(basis, reverse=True):
            if val >> bit & 1:
                val ^= basis[bit][0]
                comb ^= basis[bit][1]
        if val:
            hb = val.bit_length() - 1
            basis[hb] = (val, comb)
    out = []
    for target_bit in range(32):
        val, comb = 1 << target_bit, 0
        for bit in sorted(basis, reverse=True):
            if val >> bit & 1:
                if bit not in basis:
                    break
                val ^= basis[bit][0]
                comb ^= basis[bit][1]
        if val == 0 and comb:
            out.append([i for i in range(32) if comb >> i & 1])
    return out


def check_crc(chk, vecs, wd, thorough, rng):
    from afkak.common import ChecksumError
    records, meta = [], []
    msgs = []
    n_inner = 0
    for v in vecs:
        if v["kind"] == "msgset":
            off = 0
            for e, ln in zip(v["x"], v["lens"]):
                msgs.append((v["bytes"], off + 12, ln - 12))
                off += ln
    seen = set()
    uniq = []
    for data, a, ln in msgs:
        key = data[a:a + ln]
        if key not in seen:
            seen.add(key)
            uniq.append((data, a, ln))
    if not thorough:
        rng.shuffle(uniq)
        uniq = uniq[:14]
    for data, a, ln in uniq:
        msg = data[a:a + ln]
        muts = []
        nb = ln * 8
        for p in range(32, nb):                   # every single bit of the checksummed bytes (magic byte included)
            muts.append([p])
        widths = range(2, 13) if thorough else (2, 3, 5, 8, 12)
        for w in widths:                          # bursts: both ends flipped, every interior pattern (sampled when many)
            interiors = list(itertools.product([0, 1], repeat=w - 2))
            if len(interiors) > (64 if thorough else 6):
                interiors = rng.sample(interiors, 64 if thorough else 6)
            for p in (range(32, nb - w + 1) if thorough else rng.sample(range(32, nb - w + 1), min(24, max(0, nb - w + 1 - 32)))):
                for it in interiors:
                    muts.append([p] + [p + 1 + i for i, b in enumerate(it) if b] + [p + w - 1])
        for w in (16, 24, 31, 32):                # wide bursts: random interiors
            for p in rng.sample(range(32, max(33, nb - w + 1)), min(6 if not thorough else 40, max(0, nb - w + 1 - 32))):
                it = [rng.randrange(2) for _ in range(w - 2)]
                muts.append([p] + [p + 1 + i for i, b in enumerate(it) if b] + [p + w - 1])
        # for every 32-bit window (sampled in quick): the burst whose syndrome is a single CRC bit
        body_bits = (ln - 4) * 8
        windows = range(0, body_bits - 31) if thorough else rng.sample(range(0, max(1, body_bits - 31)), min(6, max(0, body_bits - 31)))
        for wstart in windows:
            for pat in solved_bursts(msg, wstart, rng):
                muts.append([32 + wstart + i for i in pat])
        for bits in muts:
            m2 = bytearray(msg)
            for b in bits:
                m2[b // 8] ^= 0x80 >> (b % 8)
            mutated = data[:a] + bytes(m2) + data[a + ln:]
            before = kwire.parse_message_set(data[:a - 12])
            oc, val = bounded(lambda: consume_msgset(mutated, 1000))
            if oc == "exception" and val == "ChecksumError":
                outcome = "checksum"
            elif oc == "value":
                outcome = "delivered:%d" % len(val)
            else:
                outcome = "%s:%s" % (oc, val)
            records.append({"msg": list(bytes(m2)), "outcome": outcome})
            meta.append((data, a, ln, bits, outcome))
        # the same message as an *inner* message of a gzip wrapper whose own checksum is valid (the alteration
        # happened before compression): the decoder has to verify the inner checksum too.  One unaltered control
        # (bits = []), single bits and a few of the bursts above.
        if msg[4] in (0, 1) and (msg[5] & 7) == 0:
            inner_muts = [[]] + [[p] for p in (range(32, nb) if thorough else rng.sample(range(32, nb), min(8, nb - 32)))]
            inner_muts += rng.sample(muts, min(len(muts), 40 if thorough else 6))
            for bits in inner_muts:
                m2 = bytearray(msg)
                for b in bits:
                    m2[b // 8] ^= 0x80 >> (b % 8)
                inner = data[:a] + bytes(m2) + data[a + ln:]
                wm = {"magic": msg[4], "attrs": 1, "key": None, "value": kwire.gz(inner)}
                if wm["magic"] == 1:
                    wm["ts"] = 0
                outer = kwire.enc_message_set([(1000, wm)])
                oc, val = bounded(lambda: consume_msgset(outer, 1000))
                if oc == "exception" and val == "ChecksumError":
                    outcome = "checksum"
                elif oc == "value":
                    outcome = "delivered:%d" % len(val)
                else:
                    outcome = "%s:%s" % (oc, val)
                records.append({"msg": list(bytes(m2)), "outcome": outcome})
                meta.append((outer, a, ln, bits, outcome + " (message inside a gzip wrapper, inner set %s)" % inner.hex()))
                n_inner += 1
    # TLC judges each outcome with the specification's CRC
    traces = [records[i:i + 200] for i in range(0, len(records), 200)]
    cfg = ["SPECIFICATION TSpec", "CONSTRAINT Report", "CHECK_DEADLOCK FALSE"]
    results, _ = tlc.validate_traces(wd, "CrcJudge", traces, [], cfg)
    chk.add_traces(len(traces), len(records))
    k = 0
    for tr, r in zip(traces, results):
        for c, l in r["viol"]:
            data, a, ln, bits, outcome = meta[k + l - 1]
            width = bits[-1] - bits[0] + 1
            chk.violation("C12.crc_detects", "burst width %s" % ("1" if width == 1 else ("<=12" if width <= 12 else "<=32")),
                          "flipping bits %s of the message at byte %d of %s is not rejected with a checksum error: decoder %s"
                          % (bits, a, data.hex(), outcome), {"family": "vectors", "bytes": data.hex(), "bits": bits})
        if r["drift"]:
            chk.add_drift(len(r["drift"]), {"crc": "valid message rejected", "at": r["drift"][0]})
        k += len(tr)
    chk.count("C12.crc_detects", len(records))
    chk.count("C12.crc_detects.inner_of_wrapper", n_inner)
    chk.sample({"family": "crc", "message": bytes(meta[0][0]).hex(), "flipped_bits": meta[0][3], "decoder": meta[0][4]})
    return len(records)


HOSTILE16 = [-2, -1, 32767]
HOSTILE32 = [-2, -1, 32767, 2147483647]


def check_hostile(chk, vecs, thorough, rng):
    """Every length / count field of every response (and message-set entry size) set to hostile values:
    decoding must end with a value or an exception, in time and memory linear in the input."""
    n = 0
    cands = [v for v in vecs if v["kind"] in ("resp", "msgset")]
    if not thorough:
        rng.shuffle(cands)
        cands = cands[:120]
    for v in cands:
        segs = v["segs"]
        total = sum(len(b) for _, b in segs)
        for i, (kind, b) in enumerate(segs):
            if kind != "n":
                continue
            cur = struct.unpack(">h" if len(b) == 2 else ">i", b)[0]
            vals = list(HOSTILE16 if len(b) == 2 else HOSTILE32) + [cur + 1]
            if v["kind"] == "msgset" and len(b) == 4:
                vals += list(range(-(total + 16), 0)) if thorough else list(range(-40, 0))
            for hv in vals:
                try:
                    nb = struct.pack(">h" if len(b) == 2 else ">i", hv)
                except struct.error:
                    continue
                data = b"".join(bb if j != i else nb for j, (_, bb) in enumerate(segs))
                n += 1
                if v["kind"] == "resp":
                    x = v["x"]

                    def run():
                        r = afkak_decode(x, data)
                        return None
                else:
                    def run():
                        consume_msgset(data, 10 * len(data) + 100)
                        return None
                tracemalloc.start()
                t0 = time.perf_counter()
                oc, val = bounded(run, limit_s=1.0)
                dt = time.perf_counter() - t0
                _, peak = tracemalloc.get_traced_memory()
                tracemalloc.stop()
                chk.count("C12.hostile_lengths")
                bad = None
                if oc == "timeout":
                    bad = "does not terminate within 1 s"
                elif oc == "exception" and val == "OverflowError":
                    bad = "yields more messages than the input could hold"
                elif oc == "exception" and val == "MemoryError":
                    bad = "raises MemoryError"
                elif peak > 4000000 + 200 * len(data):
                    bad = "allocates %d bytes for %d input bytes" % (peak, len(data))
                if bad:
                    what = name_of(v["x"]) if v["kind"] == "resp" else "message set"
                    chk.violation("C12.hostile_lengths", "%s field#%d" % (what, i) if v["kind"] == "resp" else "message set entry size",
                                  "%s with length/count field %d set to %d (%s): decoder %s" % (what, i, hv, data.hex(), bad),
                                  {"family": "vectors", "bytes": data.hex()})
    return n


def load_vectors(chk, prop, tier, kinds):
    wd = tlc.workdir("%s-%s-wire" % (prop, tier))
    K = 14 if tier == "thorough" else 6
    res, vecs = wirevec.generate(wd, kinds, K)
    chk.add_model("WireVectors", res, {"K": K, "kinds": kinds},
                  "one state per abstract request/response/message set; bytes computed by Wire.tla (+CRC32.tla), "
                  "logical content of compressed sets by MessageSet.tla")
    cross_check_kwire(vecs)
    return wd, vecs


def main(prop, tier, seed, replay_file):
    if replay_file:
        with open(replay_file) as f:
            rp = json.load(f)
        if rp.get("family") == "negotiation":
            from . import check_calls
            check_calls.replay(rp)
        print(json.dumps({k: rp[k] for k in rp if k != "trace"}, indent=1, default=repr)[:4000])
        print("(vector checks are deterministic: re-run ./check %s to reproduce)" % prop)
        raise SystemExit(1)

    def body(chk):
        rng = random.Random(seed)
        thorough = tier == "thorough"
        chk.assumptions += [
            "deflate is outside the specification: compressed wrappers are built with Python's gzip around sets the specification defines; snappy is not installed",
            "field domains are boundary integers, null/empty/short strings and byte strings, 0-2 topics x 0-2 partitions x 0-2 messages; long values are only exercised in end-to-end runs",
        ]
        if prop == "C04":
            wd, vecs = load_vectors(chk, prop, tier, ["req"])
            n = check_requests(chk, vecs)
            chk.extra["request_vectors_compared"] = n
            chk.sample({"request": repr(vecs[len(vecs) // 2]["x"]), "bytes": vecs[len(vecs) // 2]["bytes"].hex()})
            from . import check_calls
            check_calls.negotiation(chk, tier, seed)
        elif prop == "C05":
            wd, vecs = load_vectors(chk, prop, tier, ["resp", "msgset", "wrapset"])
            n1 = check_responses(chk, vecs)
            n2 = check_msgsets(chk, vecs)
            chk.extra["response_vectors"] = n1
            chk.extra["message_set_vectors"] = n2
            r = [v for v in vecs if v["kind"] == "resp"][7]
            chk.sample({"response": repr(r["x"]), "bytes": r["bytes"].hex()})
            w = [v for v in vecs if v["kind"] == "wrapset"][0]
            chk.sample({"compressed_set": repr(w["x"]), "logical_content": repr(w["flat"])})
        elif prop == "C12":
            wd, vecs = load_vectors(chk, prop, tier, ["resp", "msgset"])
            chk.extra["truncations"] = check_truncation(chk, vecs)
            chk.extra["mutations_judged_by_TLC"] = check_crc(chk, vecs, wd, thorough, rng)
            chk.extra["hostile_decodes"] = check_hostile(chk, vecs, thorough, rng)
            chk.assumptions.append("third sentence: only the grammar-derived hostile length/count family is generated (every length and count field "
                                   "of every response, entry sizes of message sets); arbitrary random byte strings are outside a model's reach")
            try:
                from . import check_consumer
                check_consumer.grow_not_skip(chk, tier, seed)
            except ImportError:
                chk.notes.append("buffer growth (consumer half of the second sentence) is checked by the consumer family once built")
        chk.exhaustive = False

    run_check(prop, tier, seed, body)
