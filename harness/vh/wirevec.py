"""Vectors computed by TLC from spec/WireVectors.tla, converted to Python values."""
import re

from . import tlaval, tlc

_VEC = re.compile(r'<<\s*"VEC"')

LIMB_FIELDS = {"offset", "time", "timestamp", "hwm", "log_append_time", "ts", "off"}
NULLABLE = {"client", "key", "value", "metadata", "assignment", "user_data"}
STRINGS = {"topic", "group", "member", "protocol_type", "name", "host", "protocol", "leader"}


def limbs_to_int(l):
    v = (l[0] << 48) | (l[1] << 32) | (l[2] << 16) | l[3]
    return v - (1 << 64) if v >= 1 << 63 else v


def conv(x, field=None):
    """TLA abstract value -> Python: limbs -> int, <<>>/<<s>> -> None/bytes, byte sequences -> bytes."""
    if field in LIMB_FIELDS and isinstance(x, tuple) and len(x) == 4 and all(isinstance(i, int) for i in x):
        return limbs_to_int(x)
    if field in NULLABLE:
        if x == ():
            return None
        return bytes(x[0])
    if field in STRINGS and not isinstance(x, int):      # (Metadata's `leader` is a node id)
        return bytes(x)
    if field == "offsets":
        return [limbs_to_int(i) for i in x]
    if field == "versions":
        return [tuple(i) for i in x]
    if isinstance(x, dict):
        return {k: conv(v, k) for k, v in x.items()}
    if isinstance(x, tuple):
        if field == "topics" and x and not isinstance(x[0], dict):
            return [bytes(i) for i in x]          # Metadata request: list of topic names
        return [conv(i, field if field in ("partitions",) else None) for i in x]
    return x


def seg_bytes(segs):
    return b"".join(bytes(s[1]) for s in segs)


def generate(wd, kinds, K, name="MC_wire"):
    defs = ["KindsDef == {%s}" % ", ".join('"%s"' % k for k in kinds)]
    cfg = ["INIT Init", "NEXT Next", "CONSTANTS", "  Kinds <- KindsDef", "  K = %d" % K,
           "INVARIANT HeaderMatchesBody", "INVARIANT FlattenOrdered", "CONSTRAINT Emit", "CHECK_DEADLOCK FALSE"]
    tla, cfgp = tlc.write_mc(wd, name, "WireVectors", defs, cfg)
    rc, text, wall = tlc.run(tla, cfgp, wd, workers=16)
    res = tlc.MCResult(rc, text, wall).check()
    out = []
    seen = set()
    pos = 0
    while True:
        m = _VEC.search(text, pos)
        if not m:
            break
        tup = tlc._balanced_after(text, m.start())
        pos = m.start() + len(tup)
        if tup in seen:
            continue
        seen.add(tup)
        v = tlaval.parse(tup)
        kind = v[1]
        rec = {"kind": kind, "x": conv(v[2]), "raw": v[2]}
        if kind in ("req", "resp"):
            rec["segs"] = [(s[0], bytes(s[1])) for s in v[3]]
            rec["bytes"] = seg_bytes(v[3])
        elif kind == "msgset":
            rec["segs"] = [(s[0], bytes(s[1])) for s in v[3]]
            rec["bytes"] = seg_bytes(v[3])
            rec["lens"] = list(v[4])
            rec["complete_within"] = list(v[5])      # index k: complete entries in the first k bytes
        elif kind == "wrapset":
            rec["flat"] = conv(v[3])
        out.append(rec)
    if len(out) != res.distinct:
        raise tlc.MachineryError("expected %d vectors from TLC, parsed %d" % (res.distinct, len(out)))
    return res, out
