"""Check C18: Murmur2.tla / Partitioner.tla against afkak's partitioners."""
import json
import os
import random
import re
import warnings

from . import tlaval, tlc
from .report import run_check

LISTS = [[0], [0, 1], [0, 1, 2], [1, 3, 5], [0, 1, 2, 3]]
VEC_LISTS = [[0], [0, 1, 2], [1, 3, 5, 7, 11], list(range(12))]


def tl(x):
    return "<<%s>>" % ", ".join(map(str, x))


def design_cfg(inv=True):
    lines = ["SPECIFICATION Spec", "CONSTANTS", "  Lists <- ListsDef", "  Keys <- KeysDef", "  MaxRun = 8",
             "CONSTRAINT Bound", "CHECK_DEADLOCK FALSE"]
    if inv:
        lines += ["INVARIANT C18_rr_fair", "INVARIANT C18_rr_in_range", "INVARIANT C18_hash_in_range"]
    return lines


DEFS = ["ListsDef == {%s}" % ", ".join(tl(l) for l in LISTS),
        "KeysDef == {<<>>, <<1>>, <<128, 255>>, <<97, 98, 99, 100, 101>>}"]


def new_rr(random_start):
    from afkak import partitioner

    partitioner.RoundRobinPartitioner.set_random_start(random_start)
    return partitioner


def run_history(events, random_start):
    """Execute a model history (rr / hash events) on one fresh partitioner of each kind."""
    from afkak import partitioner as P

    P.RoundRobinPartitioner.set_random_start(random_start)
    forced = [0]
    orig = P.randint
    P.randint = lambda a, b: min(max(forced[0], a), b)
    try:
        rr = None
        hp = None
        out = []
        for e in events:
            L = list(e["list"])
            if e["a"] == "rr":
                forced[0] = e.get("start", 0)
                if rr is None:
                    rr = P.RoundRobinPartitioner("t", L)
                r = rr.partition(None, L)
                out.append({"e": {"a": "rr", "list": L}, "o": {"r": r}})
            else:
                if hp is None:
                    hp = P.HashedPartitioner("t", L)
                key = bytes(e["key"])
                exc = ""
                try:
                    r = hp.partition(key, L)
                except Exception as ex:
                    r, exc = -1, type(ex).__name__
                out.append({"e": {"a": "hash", "list": L, "key": list(key)}, "o": {"r": r, "exc": exc}})
        return out
    finally:
        P.randint = orig
        P.RoundRobinPartitioner.set_random_start(False)


def random_key(rng):
    n = rng.choice([0, 1, 2, 3, 4, 5, 6, 7, 8, 9, 11, 13, 16, 17, 31, 40, 64, 257])
    style = rng.random()
    if style < 0.4:
        return bytes(rng.choice([0, 1, 0x7F, 0x80, 0xFF]) for _ in range(n))
    if style < 0.7:
        return bytes(rng.randrange(256) for _ in range(n))
    return "".join(rng.choice("abcXYZ019-_é€ü") for _ in range(n)).encode("utf-8")


def random_hash_history(seed):
    """One HashedPartitioner object called with keys in str/bytes/bytearray form and lists that change."""
    from afkak import partitioner as P

    rng = random.Random(seed)
    L = rng.choice(VEC_LISTS + LISTS)
    hp = P.HashedPartitioner("t", list(L))
    out = []
    for _ in range(rng.randint(3, 14)):
        if rng.random() < 0.3:
            L = rng.choice(VEC_LISTS + LISTS)
        key = random_key(rng)
        form = rng.choice(["bytes", "bytearray", "str"])
        arg = key
        if form == "bytearray":
            arg = bytearray(key)
        elif form == "str":
            try:
                arg = key.decode("utf-8")
            except UnicodeDecodeError:
                form = "bytes"
        exc = ""
        try:
            r = hp.partition(arg, list(L))
        except Exception as ex:
            r, exc = -1, type(ex).__name__
        out.append({"e": {"a": "hash", "list": list(L), "key": list(key), "form": form}, "o": {"r": r, "exc": exc}})
        if rng.random() < 0.5:
            h = P.pure_murmur2(bytearray(key))
            out.append({"e": {"a": "murmur", "list": [0], "key": list(key)}, "o": {"r": 0, "hi": h >> 16, "lo": h & 0xFFFF}})
    return out


def random_rr_history(seed):
    from afkak import partitioner as P

    rng = random.Random(seed)
    rs = rng.random() < 0.6
    P.RoundRobinPartitioner.set_random_start(rs)
    try:
        pool = LISTS + [[2, 4, 6, 8, 10, 12, 14], list(range(9))]
        L = rng.choice(pool)
        rr = P.RoundRobinPartitioner("t", list(L))
        out = []
        for _ in range(rng.randint(5, 40)):
            if rng.random() < 0.12:
                L = rng.choice(pool)
            out.append({"e": {"a": "rr", "list": list(L)}, "o": {"r": rr.partition(None, list(L))}})
        return out
    finally:
        P.RoundRobinPartitioner.set_random_start(False)


_VEC = re.compile(r'<<\s*"VEC"')


def vectors(chk, wd, maxlen):
    """TLC computes hash and picks for every key over the alphabet; compare with the real code."""
    from afkak import partitioner as P

    defs = ["ListsDef == {%s}" % ", ".join(tl(l) for l in VEC_LISTS)]
    cfg = ["INIT Init", "NEXT Next", "CONSTANTS", "  Alphabet = {0, 1, 127, 128, 255}", "  MaxLen = %d" % maxlen,
           "  Lists <- ListsDef", "INVARIANT InRange", "CONSTRAINT Emit", "CHECK_DEADLOCK FALSE"]
    tla, cfgp = tlc.write_mc(wd, "MC_vec", "Murmur2_Vectors", defs, cfg)
    rc, text, wall = tlc.run(tla, cfgp, wd, workers=16)
    res = tlc.MCResult(rc, text, wall).check()
    chk.add_model("Murmur2_Vectors", res, {"Alphabet": [0, 1, 127, 128, 255], "MaxLen": maxlen,
                                           "Lists": VEC_LISTS}, "one state per key; hash and picks computed by the specification")
    n = 0
    pos = 0
    seen = set()
    hp = P.HashedPartitioner("t", [0])
    while True:
        m = _VEC.search(text, pos)
        if not m:
            break
        tup = tlc._balanced_after(text, m.start())
        pos = m.start() + len(tup)
        v = tlaval.parse(tup)
        key = bytes(v[1])
        if key in seen:      # the constraint is evaluated again on the stuttering successor
            continue
        seen.add(key)
        want = (v[2][0] << 16) | v[2][1]
        got = P.pure_murmur2(bytearray(key))
        n += 1
        if got != want:
            chk.violation("C18.java", "len%%4=%d" % (len(key) % 4),
                          "pure_murmur2(%r) = %#x, the specification (Java algorithm) gives %#x" % (key, got, want),
                          {"family": "vectors", "key": list(key)})
        picks = v[3]
        for L, p in (picks.items() if isinstance(picks, dict) else []):
            L = list(L)
            forms = [key, bytearray(key)]
            try:
                forms.append(key.decode("utf-8"))
            except UnicodeDecodeError:
                pass
            for arg in forms:
                try:
                    r = hp.partition(arg, L)
                except Exception as ex:
                    r = "raises %s" % type(ex).__name__
                if r != p:
                    chk.violation("C18.hash_pick", "form=%s" % type(arg).__name__,
                                  "HashedPartitioner.partition(%r, %r) = %r, specification picks %r" % (arg, L, r, p),
                                  {"family": "vectors", "key": list(key), "list": L})
    chk.count("C18.java vectors", n)
    if n != res.distinct:
        raise tlc.MachineryError("expected %d vectors, parsed %d" % (res.distinct, n))
    chk.sample({"family": "vectors", "key": list(key), "hash": want, "picks": {str(list(k)): p for k, p in picks.items()}})
    return n


def unbounded_fairness(chk, tier):
    """round-robin fairness for runs of any length: RoundRobinInd.tla's inductive invariant discharged by Apalache
    (initiation, consecution, and invariant => fairness clauses)"""
    import shutil
    import subprocess
    import tempfile
    apa = shutil.which("apalache-mc")
    if apa is None:
        chk.notes.append("apalache-mc not found: the unbounded round-robin argument was not re-checked in this run")
        return
    out = tempfile.mkdtemp(prefix="apa-", dir=tlc.BUILD)
    spec = os.path.join(tlc.VERIF, "spec", "RoundRobinInd.tla")
    steps = [("initiation", ["--init=Init", "--inv=IndInv", "--length=0"]),
             ("consecution", ["--init=IndInit", "--inv=IndInv", "--length=1"]),
             ("fairness", ["--init=IndInit", "--inv=Fair", "--length=0"])]
    try:
        for name, args in steps:
            try:
                r = subprocess.run([apa, "check", "--out-dir=" + out] + args + [spec], capture_output=True, text=True, timeout=600)
            except subprocess.TimeoutExpired:
                chk.notes.append("apalache timed out on %s: the unbounded argument is not claimed in this run" % name)
                return
            txt = r.stdout + r.stderr
            if "EXITCODE: OK" in txt:
                chk.count("C18.rr_fair_unbounded:%s:proved" % name)
            elif "EXITCODE: ERROR (12)" in txt:
                chk.violation("C18.rr_fair_unbounded", name, "Apalache found a counterexample to the %s obligation of RoundRobinInd" % name,
                              {"family": "apalache", "obligation": name, "output": txt[-3000:]})
            else:
                raise tlc.MachineryError("apalache failed on %s:\n%s" % (name, txt[-1500:]))
    finally:
        shutil.rmtree(out, ignore_errors=True)


def main(prop, tier, seed, replay_file):
    warnings.simplefilter("ignore")

    def body(chk):
        thorough = tier == "thorough"
        rng = random.Random(seed)
        chk.assumptions += [
            "the C extension murmurhash2 is not installed in this sandbox: only the pure-Python hash path is exercised",
            "statistical uniformity of the random start is not a state property and is not checked; fairness is checked from every start",
            "Java compatibility is anchored by the six vectors of Apache Kafka's UtilsTest.testMurmur2 (ASSUMEs in Murmur2.tla)",
        ]
        wd = tlc.workdir("C18-%s" % tier)
        res = tlc.model_check(wd, "MC_Part", "Partitioner", DEFS, design_cfg()).check()
        chk.add_model("Partitioner", res, {"Lists": LISTS, "MaxRun": 8}, "all histories of selections with list changes from every start")
        unbounded_fairness(chk, tier)
        gres, g = tlc.dump_graph(wd, "MC_graph", "Partitioner", DEFS,
                                 [l.replace("MaxRun = 8", "MaxRun = %d" % (6 if thorough else 5)) for l in design_cfg(False)])
        paths = g.edge_cover(rng, max_len=20)
        if not thorough and len(paths) > 3000:
            rng.shuffle(paths)
            paths = paths[:3000]
        traces, sources = [], []
        for p in paths:
            evs = g.events(p)
            traces.append(run_history(evs, True))
            sources.append("TLC edge-cover (random start forced to the model's)")
            if all(e.get("start", 0) == 0 for e in evs):
                traces.append(run_history(evs, False))
                sources.append("TLC edge-cover (fixed start)")
        nr = 4000 if thorough else 600
        for k in range(nr):
            traces.append(random_hash_history(seed * 104729 + k))
            sources.append("random hashed history seed=%d" % (seed * 104729 + k))
            traces.append(random_rr_history(seed * 104729 + k))
            sources.append("random round-robin history seed=%d" % (seed * 104729 + k))
        cfg = ["SPECIFICATION TSpec", "CONSTANTS", "  Lists = {}", "  Keys = {}", "  MaxRun = 0",
               "CONSTRAINT Report", "CHECK_DEADLOCK FALSE"]
        results, _ = tlc.validate_traces(wd, "Partitioner_Trace", traces, [], cfg)
        chk.add_traces(len(traces), sum(len(t) for t in traces))
        chk.sample({"family": "partitioner", "source": sources[-1], "trace": traces[-1][:6]})
        chk.sample({"family": "partitioner", "source": sources[-2], "trace": traces[-2][:4]})
        for i, (tr, r) in enumerate(zip(traces, results)):
            first = {}
            for c, l in r["viol"]:
                first.setdefault(c, l)
            for c, l in first.items():
                chk.count(c)
                e = tr[l - 1]["e"]
                sig = e["a"] + (":" + e.get("form", "") if e["a"] == "hash" else "")
                chk.violation(c, sig, "%s fails at call %d %s -> %s (%s)" % (c, l, json.dumps(e), json.dumps(tr[l - 1]["o"]), sources[i]),
                              {"family": "partitioner", "trace": tr, "line": l})
        nv = vectors(chk, wd, 6 if thorough else 5)
        chk.exhaustive = False
        chk.extra["vectors_compared"] = nv

    run_check(prop, tier, seed, body)
