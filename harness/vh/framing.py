"""Scenario family `framing`: KafkaProtocol / KafkaBootstrapProtocol fed a broker byte
stream in arbitrary chunks (spec/Framing.tla)."""
import random
import struct

from twisted.internet import protocol

from . import sim

BAD = struct.pack(">I", 0x80000000)   # smallest length above the protocol's limit of 2**31 - 1


def body(k, fr):
    return struct.pack(">iB", fr[0], k) + b"x" * fr[1]


def stream_bytes(st):
    out = b""
    for k, fr in enumerate(st, 1):
        if fr[0] == 0:
            out += BAD
        else:
            b = body(k, fr)
            out += struct.pack(">i", len(b)) + b
    return out


class _StubFactory(protocol.ClientFactory):
    """Stands in for _KafkaBrokerClient under a bare KafkaProtocol."""

    def __init__(self, run):
        self.run = run

    def buildProtocol(self, addr):
        from afkak._protocol import KafkaProtocol

        p = KafkaProtocol()
        p.factory = self
        return p

    def handleResponse(self, string):
        self.run.up.append(string)

    def _connectionLost(self, reason):
        self.run.lost += 1


class FramingRun:
    def __init__(self, st, mode):
        self.st = [list(f) for f in st]
        self.mode = mode
        self.bytes = stream_bytes(st)
        self.pos = 0
        self.net = sim.SimNet()
        self.up = []
        self.fired = []
        self.lost = 0
        self.pend = {}
        self.done = set()
        if mode == "proto":
            fac = _StubFactory(self)
        else:
            from afkak._protocol import bootstrapFactory as fac
        self.att = self.net.new_attempt("h1", 9001, fac)
        self.tr = self.att.accept()
        self.proto = self.tr.protocol
        self.net.drain_log()
        self.steps = []

    def _ident(self, data):
        """id carried by a frame body if the body is byte-for-byte one of the stream's frames, else -1"""
        if len(data) >= 5:
            cid, k = struct.unpack(">iB", data[:5])
            if 1 <= k <= len(self.st) and self.st[k - 1][0] != 0 and body(k, self.st[k - 1]) == data:
                return cid, k
        return -1, 0

    def possible(self, e):
        a, n = e["a"], e["n"]
        if a == "Recv":
            return self.tr.connected and not self.tr.disconnecting and n >= 1 and self.pos + n <= len(self.bytes)
        if a == "Request":
            return self.mode == "boot" and n not in self.pend
        if a == "ConnLost":
            return self.tr.connected
        return False

    def step(self, e):
        a, n = e["a"], e["n"]
        if not self.possible(e):
            self.steps.append({"e": {"a": "Unexecutable", "n": n}, "o": {}, "was": e})
            return False
        self.up, self.fired = [], []
        self.net.drain_log()
        exc = ""
        try:
            if a == "Recv":
                self.tr.deliver(self.bytes[self.pos:self.pos + n])
                self.pos += n
            elif a == "Request":
                d = self.proto.request(struct.pack(">hhih", 3, 0, n, 0))
                self.pend[n] = d

                def cb(res, rid=n):
                    cid, k = self._ident(res)
                    self.fired.append([rid, "resp", k if cid == rid else -1])

                def eb(f, rid=n):
                    self.fired.append([rid, "lost", 0])

                d.addCallbacks(cb, eb)
            elif a == "ConnLost":
                self.tr.drop()
        except Exception as ex:
            exc = type(ex).__name__
        lg = self.net.drain_log()
        o = {"up": [self._ident(x)[0] for x in self.up], "lose": any(r[0] == "lose" for r in lg),
             "fired": self.fired, "exc": exc}
        self.steps.append({"e": {"a": a, "n": n}, "o": o})
        return True


def execute(st, mode, events):
    run = FramingRun(st, mode)
    for e in events:
        if not run.step(e):
            break
    return {"st": run.st, "mode": mode, "steps": run.steps}


def random_run(seed, mode, max_frames=6):
    rng = random.Random(seed)
    nfr = rng.randint(1, max_frames)
    st = []
    for _ in range(nfr):
        r = rng.random()
        if r < 0.08:
            st.append([0, 0])
        else:
            st.append([rng.randint(1, 4), rng.choice([0, 0, 1, 2, 5, 40])])
    run = FramingRun(st, mode)
    reqs = set()
    for _ in range(200):
        cands = []
        remaining = len(run.bytes) - run.pos
        if remaining > 0:
            n = min(remaining, rng.choice([1, 1, 2, 3, 4, 5, 8, 9, 13, 30, remaining]))
            cands.append({"a": "Recv", "n": n})
        if mode == "boot":
            free = [i for i in range(1, 5) if i not in reqs]
            if free:
                cands += [{"a": "Request", "n": rng.choice(free)}] * 2
        if rng.random() < 0.05 or not cands:
            cands.append({"a": "ConnLost", "n": 0})
        cands = [c for c in cands if run.possible(c)]
        if not cands:
            break
        e = rng.choice(cands)
        if e["a"] == "Request":
            reqs.add(e["n"])
        run.step(e)
    return {"st": run.st, "mode": mode, "steps": run.steps}
