"""Scenario family `producer`: the real afkak Producer, either over a scripted client (every event of
spec/Producer.tla is directly executable) or over the real KafkaClient and a simulated cluster
(broker-level events are scheduled; the producer-level events are derived by the recorder)."""
import random
import sys

from twisted.internet import defer
from twisted.python import failure

from . import kwire, sim, simkafka

FACTOR = 1.20205


def delays(interval, n=12):
    """the k-th consecutive retry delay in microseconds, computed independently of the producer's
    running multiplication"""
    return [int(round(interval * (FACTOR ** k) * 1e6)) for k in range(n)]


# A configuration fixes the producer's settings and the table of sends the schedule may use.
def make_cfg(name, batch_n, batch_b, batch_t, max_attempts, acks, sends, interval=0.25):
    """sends: list of (topic, nmsgs, nbytes_per_msg; None: null messages; negative: a null message followed by
    messages of that many bytes)"""
    return {"name": name, "batch_n": batch_n, "batch_b": batch_b, "batch_t": batch_t, "max_attempts": max_attempts,
            "acks": acks, "sends": sends, "interval": interval}


SENDS = [("a", 1, 3), ("a", 2, None), ("b", 1, 5), ("a", 1, 4), ("b", 2, 2), ("a", 3, -2), ("b", 1, None), ("a", 1, 6)]
CONFIGS = [
    make_cfg("unbatched-acks1", 1, 1, 0, 2, 1, SENDS),
    make_cfg("batch-n2-t", 2, 0, 1.0, 2, 1, SENDS, interval=0.4),       # (retry intervals other than the class default)
    make_cfg("batch-b8", 0, 8, 0, 3, 1, SENDS, interval=0.1),
    make_cfg("batch-n3-b10-t-acks0", 3, 10, 2.0, 2, 0, SENDS),
    make_cfg("batch-t-only-acks-all", 0, 0, 1.0, 3, -1, SENDS),
]


def cfg_constants(cfg):
    n = len(cfg["sends"])
    fn = lambda vals: " @@ ".join("(%d :> %s)" % (i + 1, v) for i, v in enumerate(vals))
    defs = ["TopicOfDef == " + fn('"%s"' % s[0] for s in cfg["sends"]),
            "CntOfDef == " + fn(s[1] for s in cfg["sends"]),
            "BytesOfDef == " + fn(send_bytes(s) for s in cfg["sends"]),
            'PartsOfDef == [t \\in {"a", "b"} |-> {0, 1}]',
            "RetryDef == <<%s>>" % ", ".join(map(str, delays(cfg["interval"])))]
    consts = ["  Sids = {%s}" % ", ".join(str(i + 1) for i in range(n)), "  TopicOf <- TopicOfDef", "  CntOf <- CntOfDef",
              "  BytesOf <- BytesOfDef", "  PartsOf <- PartsOfDef", "  RetryDelays <- RetryDef",
              "  BatchN = %d" % cfg["batch_n"], "  BatchB = %d" % cfg["batch_b"],
              "  BatchT = %d" % (int(cfg["batch_t"] * 1e6) if cfg["batch_t"] else 0),
              "  MaxAttempts = %d" % cfg["max_attempts"], "  Acks <- AcksDef"]      # (a cfg file cannot hold -1)
    defs.append("AcksDef == %s" % ("-1" if cfg["acks"] == -1 else str(cfg["acks"])))
    return defs, consts


def send_bytes(s):
    topic, n, b = s
    return 0 if b is None else n * b if b > 0 else (n - 1) * -b


def msgs_of(cfg, sid):
    topic, n, b = cfg["sends"][sid - 1]
    if b is not None and b < 0:
        return [None] + [(b"%d.%d:" % (sid, j)).ljust(-b, b"x")[:-b] for j in range(1, n)]
    return [None if b is None else (b"%d.%d:" % (sid, j)).ljust(b, b"x")[:b] for j in range(n)]


def msg_ids(cfg, sid):
    return [sid * 100 + j for j in range(cfg["sends"][sid - 1][1])]


class ScriptPartitioner:
    """partitioner_class for the Producer: returns the partition the schedule dictates for the send whose
    key is being partitioned (every send has the key b's<sid>')."""
    script = {}

    def __init__(self, topic, partitions):
        self.topic = topic

    def partition(self, key, partitions):
        return ScriptPartitioner.script.get(key, 0)


class ScriptedClient:
    """The slice of KafkaClient's interface the Producer uses; every call completes only when told."""
    _api_versions = 0

    def __init__(self, clock, fam):
        self.reactor = clock
        self.fam = fam
        self.known = set()
        self.arm_fail = False
        self.topic_partitions = {"a": [0, 1], "b": [0, 1]}
        self.loads = []        # pending: (sid, topic, Deferred)
        self.produce = None    # pending: (payloads, Deferred)

    def metadata_error_for_topic(self, topic):
        return 0 if topic in self.known else 3

    def load_metadata_for_topics(self, *topics):
        d = defer.Deferred()
        sid = self.fam.sid_from_stack()
        self.loads.append((sid, topics[0], d))
        self.fam.act(["meta", topics[0]])
        return d

    def send_produce_request(self, payloads, acks=1, timeout=1000, fail_on_error=True, callback=None):
        self.fam.act(["produce", self.fam.describe(payloads)])
        if self.arm_fail:
            # the call fails at once: the Deferred handed back has already failed
            from afkak.common import LeaderUnavailableError
            self.arm_fail = False
            return defer.fail(failure.Failure(LeaderUnavailableError("scripted: failed at once")))
        d = defer.Deferred()
        self.produce = (payloads, d)
        return d

    def reset_topic_metadata(self, *topics):
        for t in topics:
            self.fam.act(["reset", t])
            self.known.discard(t)


class ProducerRun:
    def __init__(self, cfg, mode="scripted", seed=0):
        from afkak import CODEC_NONE
        from afkak.producer import Producer

        self.cfg, self.mode = cfg, mode
        self.clock = sim.SimClock()
        self.acts = []
        self.steps = []
        self.ds = {}
        self.done = set()
        self.exc = ""
        self.timer_tags = {}       # id(dc) -> ("metaretry", sid) | ("retry",) | ("tick",)
        self._wrap_clock()
        self.client = ScriptedClient(self.clock, self)
        ScriptPartitioner.script = {}
        self.producer = Producer(self.client, partitioner_class=ScriptPartitioner, req_acks=cfg["acks"],
                                 max_req_attempts=cfg["max_attempts"], retry_interval=cfg["interval"],
                                 batch_send=not (cfg["batch_n"] == 1 and cfg["batch_b"] == 1 and not cfg["batch_t"]),
                                 batch_every_n=cfg["batch_n"], batch_every_b=cfg["batch_b"],
                                 batch_every_t=cfg["batch_t"] or None)
        self.stopped = False

    # -- instrumentation from outside: who called?
    @staticmethod
    def sid_from_stack():
        f = sys._getframe(2)
        for _ in range(12):
            if f is None:
                break
            if f.f_code.co_name == "_next_partition":
                key = f.f_locals.get("key")
                if key and key.startswith(b"s"):
                    return int(key[1:])
            f = f.f_back
        return 0

    def _wrap_clock(self):
        orig = self.clock.callLater

        def call_later(delay, fn, *a, **kw):
            dc = orig(delay, fn, *a, **kw)
            f = sys._getframe(1)
            tag = None
            for _ in range(10):
                if f is None:
                    break
                name = f.f_code.co_name
                if name == "_next_partition":
                    key = f.f_locals.get("key")
                    tag = ("metaretry", int(key[1:]) if key and key.startswith(b"s") else 0)
                    break
                if name == "_check_retry_payloads":
                    tag = ("retry",)
                    break
                if name in ("_scheduleFrom", "_reschedule", "start") and "LoopingCall" in type(f.f_locals.get("self", None)).__name__:
                    tag = ("tick",)
                    break
                f = f.f_back
            self.timer_tags[id(dc)] = tag
            if tag and tag[0] != "tick":
                self.act(["timer", int(round(delay * 1e6))])
            return dc
        self.clock.callLater = call_later

    def act(self, a):
        self.acts.append(a)

    def describe(self, payloads):
        out = []
        for p in payloads:
            sids = []
            for m in p.messages:
                k = m.key
                sid = int(k[1:]) if k and k.startswith(b"s") else 0
                if sid not in sids:
                    sids.append(sid)
            out.append([p.topic, p.partition, sids])
        return out

    def _watch(self, sid, d):
        def cb(res):
            self.done.add(sid)
            det = [res.topic, res.partition] if res is not None and hasattr(res, "topic") else ["", -1]
            ok = res is None or hasattr(res, "topic")
            if not ok:
                # the Deferred "succeeded" with something that is not a produce response (e.g. an exception object)
                self.act(["fire", sid, "ok", ["!" + type(res).__name__, -1]])
            else:
                self.act(["fire", sid, "ok", det])

        def eb(f):
            self.done.add(sid)
            self.act(["fire", sid, "fail", [type(f.value).__name__, -1]])
        d.addCallbacks(cb, eb)

    def _timer(self, tag):
        for dc in self.clock.getDelayedCalls():
            if self.timer_tags.get(id(dc)) == tag:
                return dc
        return None

    def possible(self, e):
        a, sid = e["a"], e["sid"]
        if a == "Send":
            return sid not in self.ds and not self.stopped
        if a == "Cancel":
            return sid in self.ds and sid not in self.done
        if a == "Stop":
            return not self.stopped
        if a == "Tick":
            return bool(self.cfg["batch_t"]) and not self.stopped and self._timer(("tick",)) is not None
        if a == "MetaDone":
            self.client.loads = [l for l in self.client.loads if not l[2].called]   # cancelled loads are gone
            return any(l[0] == sid for l in self.client.loads)
        if a == "MetaRetry":
            return self._timer(("metaretry", sid)) is not None
        if a == "ProduceDone":
            if self.client.produce is not None and self.client.produce[1].called:
                self.client.produce = None
            return self.client.produce is not None
        if a == "RetryFire":
            return self._timer(("retry",)) is not None
        if a == "Learn":
            return True
        if a == "ArmFail":
            return not self.client.arm_fail and not self.stopped
        return False

    def _fire_timer(self, dc):
        dc.reset(0)
        self.clock.advance(0)

    def step(self, e):
        from afkak import common as C

        a, sid, x = e["a"], e["sid"], e["x"]
        if a == "Learn":          # the client's knowledge of a topic toggles (environment)
            t = e["res"]
            (self.client.known.discard if t in self.client.known else self.client.known.add)(t)
            return True
        if not self.possible(e):
            self.steps.append({"e": dict(e, a="Unexecutable"), "known": sorted(self.client.known), "o": {"acts": [], "exc": "", "pending": 0}, "was": e})
            return False
        self.acts = []
        self.known_snapshot = None
        self.known_before = sorted(self.client.known)
        exc = ""
        try:
            if a == "Send":
                topic = self.cfg["sends"][sid - 1][0]
                key = b"s%d" % sid
                ScriptPartitioner.script[key] = x
                d = self.producer.send_messages(topic, key=key, msgs=msgs_of(self.cfg, sid))
                self.ds[sid] = d
                self._watch(sid, d)
            elif a == "Cancel":
                self.ds[sid].cancel()
            elif a == "Stop":
                self.stopped = True
                self.producer.stop()
            elif a == "Tick":
                self._fire_timer(self._timer(("tick",)))
            elif a == "ArmFail":
                self.client.arm_fail = True
            elif a == "MetaDone":
                i = [k for k, l in enumerate(self.client.loads) if l[0] == sid][0]
                _, topic, d = self.client.loads.pop(i)
                if x:
                    d.callback(True)
                else:
                    d.errback(failure.Failure(C.KafkaUnavailableError("scripted: all hosts failed")))
            elif a == "MetaRetry":
                self._fire_timer(self._timer(("metaretry", sid)))
            elif a == "RetryFire":
                self._fire_timer(self._timer(("retry",)))
            elif a == "ProduceDone":
                payloads, d = self.client.produce
                self.client.produce = None
                r = e["res"]
                if r["kind"] == "empty":
                    d.callback([])
                elif r["kind"] == "kafka":
                    d.errback(failure.Failure(C.LeaderUnavailableError("scripted")))
                elif r["kind"] == "other":
                    d.errback(failure.Failure(ValueError("scripted")))
                elif r["kind"] == "cancelled":
                    d.errback(failure.Failure(defer.CancelledError()))
                else:
                    resps = [C.ProduceResponse(p.topic, p.partition, c, 10 if c == 0 else -1)
                             for p, c in zip(payloads, r["codes"]) if c >= 0]
                    failed = [(p, failure.Failure(C.RequestTimedOutError("scripted"))) for p, c in zip(payloads, r["codes"]) if c < 0]
                    # the client's own invalidation on 3/6 (ClientRouting C08) precedes the producer's callback
                    for p, c in zip(payloads, r["codes"]):
                        if c in (3, 6):
                            self.client.known.discard(p.topic)
                    if failed:
                        self.client.known.clear()
                    self.known_snapshot = sorted(self.client.known)
                    if failed:
                        d.errback(failure.Failure(C.FailedPayloadsError(resps, failed)))
                    else:
                        d.callback(resps)
            else:
                raise ValueError(a)
        except Exception as ex:
            exc = "%s: %s" % (type(ex).__name__, ex)
        pending = sum(1 for dc in self.clock.getDelayedCalls()
                      if (self.timer_tags.get(id(dc)) or ("",))[0] in ("metaretry", "retry"))
        known = self.known_snapshot if self.known_snapshot is not None else self.known_before
        self.steps.append({"e": {"a": a, "sid": sid, "x": x, "res": e.get("res") or []}, "known": known,
                           "o": {"acts": self.acts, "exc": exc, "pending": pending}})
        return True

    def result(self):
        return {"cfg": {"name": self.cfg["name"], "acks": self.cfg["acks"]}, "steps": self.steps,
                "msgs": [msg_ids(self.cfg, i + 1) for i in range(len(self.cfg["sends"]))]}


def execute(cfg, events):
    run = ProducerRun(cfg)
    for e in events:
        if not run.step(e):
            break
    return run.result()


def random_run(cfg, seed, length):
    rng = random.Random(seed)
    run = ProducerRun(cfg)
    nsend = 0
    n = len(cfg["sends"])
    for _ in range(length):
        cands = []

        def add(w, a, sid=0, x=0, res=None):
            e = {"a": a, "sid": sid, "x": x, "res": res or []}
            if run.possible(e):
                cands.append((w, e))
        if nsend < n and not run.stopped:
            add(6, "Send", nsend + 1, rng.randrange(2))
        pend = [i for i in run.ds if i not in run.done]
        if pend:
            add(1.5, "Cancel", rng.choice(pend))
        add(0.4, "Stop")
        add(2, "Tick")
        for (sid, topic, d) in list(run.client.loads):
            add(4, "MetaDone", sid, 1 if rng.random() < 0.85 else 0)
        for i in range(1, n + 1):
            add(3, "MetaRetry", i)
        add(4, "RetryFire")
        add(0.5, "ArmFail")
        if run.possible({"a": "ProduceDone", "sid": 0}):
            k = len(run.client.produce[0])
            r = rng.random()
            if r < 0.6:
                res = {"kind": "resp", "codes": [rng.choice([0, 0, 0, 6, 7, -1]) for _ in range(k)]}
            elif r < 0.7:
                res = {"kind": "empty", "codes": []}
            elif r < 0.85:
                res = {"kind": "kafka", "codes": []}
            else:
                res = {"kind": rng.choice(["other", "cancelled"]), "codes": []}
            if cfg["acks"] == 0 and rng.random() < 0.6:
                res = {"kind": "empty", "codes": []}
            add(8, "ProduceDone", 0, 0, res)
        # the client's knowledge changes
        if rng.random() < 0.35:
            run.step({"a": "Learn", "sid": 0, "x": 0, "res": rng.choice(["a", "b"])})
        if not cands:
            break
        tot = sum(w for w, _ in cands)
        r = rng.random() * tot
        for w, e in cands:
            r -= w
            if r <= 0:
                break
        if e["a"] == "Send":
            nsend += 1
        run.step(e)
    return run.result()
