"""Full-stack group runs: two real ConsumerGroup members, each over its own real KafkaClient, real Consumers,
broker clients, protocols and codec, on one simulated network and cluster whose group coordinator
(simkafka.GroupState) holds joins until the scheduler completes the rebalance.

After every scheduled event a snapshot is recorded: the coordinator's generation, members and assignment, each
member's identity, running partition consumers (with the generation and member id they commit with), what it has
outstanding, its timers, and the group / commit requests that reached the wire during the event.  spec/GroupFence.tla
states the fencing and progress clauses over such snapshots; TLC evaluates them on every recorded step."""
import random
import sys

from . import kwire, sim, simkafka

GROUP, TOPIC = "g", "a"
NAMES = {kwire.JOIN_GROUP: "join", kwire.SYNC_GROUP: "sync", kwire.HEARTBEAT: "hb", kwire.LEAVE_GROUP: "leave",
         kwire.OFFSET_COMMIT: "commit", kwire.OFFSET_FETCH: "ofetch", kwire.FIND_COORDINATOR: "coord", kwire.METADATA: "meta",
         kwire.FETCH: "fetch", kwire.LIST_OFFSETS: "offsets"}
GROUP_APIS = ("join", "sync", "hb", "leave", "commit", "coord")
MEMBERS = ("A", "B")


class Member:
    def __init__(self, name):
        self.name = name
        self.client = None
        self.group = None
        self.start_state = "none"       # none | pending | ok | fail
        self.stop_state = "none"        # none | pending | done
        self.processed = []


class GroupFullRun:
    def __init__(self, seed):
        import afkak.client as ac
        import afkak._group as G
        from afkak.client import KafkaClient
        from afkak.consumer import Consumer
        from . import clientfam

        self.ac, self.G = ac, G
        self.clock = sim.SimClock()
        self.net = sim.SimNet()
        self.cluster = cl = simkafka.Cluster(self.net)
        for b in (1, 2):
            cl.add_broker(b, "k%d" % b, 9000 + b)
        cl.add_topic(TOPIC, {0: 1, 1: 2})
        cl.coordinator[GROUP] = 1
        cl.groups[GROUP] = simkafka.GroupState()
        for p, n in ((0, 4), (1, 3)):
            cl.store(cl.topics[TOPIC][p], [(o, {"magic": 0, "attrs": 0, "key": None, "value": b"p%d-%d" % (p, o)}) for o in range(n)])
        self._orig_random = ac.random
        ac.random = clientfam.Shuffler(random.Random(seed))
        self.timer_tags = {}
        self.new_rejoin = []
        self._wrap_clock()
        run = self

        class TrackedConsumer(Consumer):
            """the real Consumer; the harness only adds a way to ask whether it is running"""
            @property
            def vh_running(self):
                return self._start_d is not None

            def shutdown(self):
                d = Consumer.shutdown(self)

                def ok(r, self=self):
                    # a graceful shutdown reported success: what the coordinator stores must be what was processed
                    lp = self.last_processed_offset
                    stored = run.cluster.offsets.get((GROUP, TOPIC, self.partition), -1)
                    if lp is not None and stored != lp:
                        run.bad_shutdowns.append([self.commit_consumer_id or "", self.partition, lp, stored])
                    return r
                d.addCallback(ok)
                return d

        self._orig_consumer = G.Consumer
        G.Consumer = TrackedConsumer
        self.all_consumers = {n: [] for n in MEMBERS}
        self.members = {}
        for name in MEMBERS:
            m = Member(name)
            m.client = KafkaClient("k1:9001,k2:9002", clientId="member-%s" % name, timeout=10000.0, reactor=self.clock,
                                   endpoint_factory=self.net.endpoint_factory, retry_policy=lambda f: 0.5,
                                   enable_protocol_version_discovery=False)

            def processor(consumer, msgs, m=m):
                m.processed.extend((consumer.partition, x.offset) for x in msgs)
                return None
            m.group = G.ConsumerGroup(m.client, GROUP, [TOPIC], processor, session_timeout_ms=30000, heartbeat_interval_ms=5000,
                                      initial_backoff_ms=1000, retry_backoff_ms=100, fatal_backoff_ms=10000,
                                      consumer_kwargs=dict(auto_commit_every_n=1, auto_commit_every_ms=0, request_retry_max_attempts=3))
            self.members[name] = m
        self.steps = []
        self.nseen = 0
        self.bad_shutdowns = []
        self.new_rejoin = []

    def restore(self):
        self.ac.random = self._orig_random
        self.G.Consumer = self._orig_consumer

    # ---------------------------------------------------------------- observation
    def _wrap_clock(self):
        orig = self.clock.callLater

        def call_later(delay, fn, *a, **kw):
            f = sys._getframe(1)
            tag = None
            if getattr(fn, "__name__", "") == "join_and_sync":
                tag = ("rejoin", getattr(fn, "__self__", None))
                self.new_rejoin.append((tag[1], int(round(delay * 1e6))))
            elif f.f_code.co_name in ("_scheduleFrom", "_reschedule"):
                lc = f.f_locals.get("self")
                if getattr(getattr(lc, "f", None), "__name__", "") == "_heartbeat":
                    tag = ("hb", getattr(lc.f, "__self__", None))
            dc = orig(delay, fn, *a, **kw)
            self.timer_tags[id(dc)] = tag
            return dc
        self.clock.callLater = call_later

    def _timers(self, kind, group):
        return [dc for dc in self.clock.getDelayedCalls()
                if (self.timer_tags.get(id(dc)) or (None, None))[0] == kind and self.timer_tags[id(dc)][1] is group]

    def _member_of(self, p):
        c = p.req.get("client") or ""
        return c[len("member-"):] if c.startswith("member-") else "?"

    @staticmethod
    def _alive(p):
        """does the client still wait for this request (not timed out, not cancelled)?"""
        bc = p.conn.tr.attempt.factory
        reqs = getattr(bc, "requests", None)
        if reqs is None:
            return True          # an ephemeral bootstrap connection: alive while connected
        t = reqs.get(p.req["corr"])
        return t is not None and t.cancelled is None

    def _pending(self):
        """unanswered requests at the brokers (not held), oldest first"""
        out = []
        for p in self.cluster.received:
            if not p.answered and not p.held and p.conn.tr.connected and not p.conn.tr.disconnecting:
                out.append(p)
        return out

    def snapshot(self, e, exc=""):
        cl = self.cluster
        g = cl.groups[GROUP]
        wire = []
        for p in cl.received[self.nseen:]:
            name = NAMES.get(p.req["api"], str(p.req["api"]))
            b = p.req["body"]
            if name in GROUP_APIS:
                wire.append([self._member_of(p), name, b.get("generation", -1) if isinstance(b.get("generation", -1), int) else -1,
                             b.get("member", "") or ""])
        self.nseen = len(cl.received)
        assign = {}
        for mid, data in g.assignment.items():
            try:
                assign[mid] = sorted(p for t, ps in kwire.parse_assignment(data)["assignment"] for p in ps) if data else []
            except Exception:
                assign[mid] = [-1]
        members = {}
        for name, m in self.members.items():
            grp = m.group
            cons = []
            for c in self.all_consumers_of(name):
                cons.append([c.partition, -1 if c.commit_generation_id is None else c.commit_generation_id,
                             c.commit_consumer_id or "", bool(c.vh_running)])
            outstanding = sorted(set(NAMES.get(p.req["api"], "?") for p in cl.received
                                     if not p.answered and self._member_of(p) == name and p.conn.tr.connected and self._alive(p)))
            members[name] = {
                "start": m.start_state, "stop": m.stop_state,
                "member": grp.member_id or "", "gen": -1 if grp.generation_id is None else grp.generation_id,
                "consumers": [c for c in cons if c[3]],
                "outstanding": outstanding,
                "rejoin_timer": len(self._timers("rejoin", grp)), "hb_timer": len(self._timers("hb", grp)),
                "client_timers": sum(1 for dc in self.clock.getDelayedCalls() if self.timer_tags.get(id(dc)) is None),
                "rejoin_delays": sorted(self.clock.delays.get(id(dc), -1) for dc in self._timers("rejoin", grp)),
                "rejoin_new": sorted(d for g_, d in self.new_rejoin if g_ is grp),
            }
        self.steps.append({"e": e, "exc": exc,
                           "coord": {"gen": g.generation, "state": g.state, "members": sorted(g.members), "leader": g.leader or "",
                                     "assign": [[k, v] for k, v in sorted(assign.items())], "ever": sorted(g.ever)},
                           "members": members, "wire": wire, "bad_shutdowns": self.bad_shutdowns})
        self.bad_shutdowns = []
        self.new_rejoin = []

    def all_consumers_of(self, name):
        # every consumer the member ever created is kept (consumers being shut down have left group.consumers)
        grp = self.members[name].group
        known = self.all_consumers[name]
        for lst in grp.consumers.values():
            for c in lst:
                if c not in known:
                    known.append(c)
        return known

    # ---------------------------------------------------------------- scheduling
    def settle(self):
        for _ in range(60):
            did = False
            if self.cluster.autopilot_connects():
                did = True
            if self.cluster.pump_all():
                did = True
            if self.cluster.reap():
                did = True
            # reconnect backoff is instantaneous
            for dc in list(self.clock.getDelayedCalls()):
                if self.clock.delays.get(id(dc)) == 500000 and self.timer_tags.get(id(dc)) is None and dc.active():
                    dc.reset(0)
                    did = True
            self.clock.advance(0)
            for name in MEMBERS:
                self.all_consumers_of(name)
            if not did:
                break

    def possible(self, e):
        a = e["a"]
        if a == "Start":
            m = self.members[e["m"]]
            return m.start_state == "none"
        if a == "Stop":
            m = self.members[e["m"]]
            return m.start_state == "pending" and m.stop_state == "none"
        if a == "Answer":
            return e["i"] < len(self._pending())
        if a == "CompleteJoin":
            return bool(self.cluster.groups[GROUP].held_joins)
        if a == "Evict":
            return e["k"] in self.cluster.groups[GROUP].members
        if a == "Advance":
            return self.clock.next_due() is not None
        return False

    def do(self, e):
        a = e["a"]
        exc = ""
        try:
            if a == "Start":
                m = self.members[e["m"]]
                m.start_state = "pending"
                d = m.group.start()
                d.addCallbacks(lambda r, m=m: setattr(m, "start_state", "ok"), lambda f, m=m: setattr(m, "start_state", "fail"))
            elif a == "Stop":
                m = self.members[e["m"]]
                m.stop_state = "pending"
                d = m.group.stop()
                d.addBoth(lambda r, m=m: setattr(m, "stop_state", "done"))
            elif a == "Answer":
                p = self._pending()[e["i"]]
                e = dict(e, k="%s:%s" % (self._member_of(p), NAMES.get(p.req["api"], "?")))
                self.cluster.answer(p, override=e["x"] or None)
            elif a == "CompleteJoin":
                self.cluster.complete_join(GROUP)
            elif a == "Evict":
                self.cluster.groups[GROUP].remove(e["k"])
            elif a == "Advance":
                self.clock.fire_next()
            self.settle()
        except Exception as ex:
            exc = "%s: %s" % (type(ex).__name__, ex)
        self.snapshot({"a": a, "m": e.get("m", ""), "x": e.get("x", 0), "k": e.get("k", "")}, exc)


def random_run(seed, length):
    rng = random.Random(seed)
    run = GroupFullRun(seed)
    try:
        for _ in range(length):
            cands = []
            for n in MEMBERS:
                for a, w in (("Start", 6), ("Stop", 0.08)):
                    e = {"a": a, "m": n}
                    if run.possible(e):
                        cands.append((w, e))
            pend = run._pending()
            for i, p in enumerate(pend[:6]):
                api = NAMES.get(p.req["api"], "?")
                errs = {"join": [15, 16, 25, 27], "sync": [16, 22, 25, 27], "hb": [16, 22, 25, 27], "commit": [16, 22, 25, 27, 14],
                        "coord": [15, 14], "ofetch": [14, 16], "fetch": [6, 7], "meta": [5]}.get(api, [7])
                x = rng.choice(errs) if rng.random() < 0.05 else 0
                cands.append((2 if api in ("fetch", "offsets") else 8, {"a": "Answer", "i": i, "x": x}))
            if run.possible({"a": "CompleteJoin"}):
                cands.append((5, {"a": "CompleteJoin"}))
            for mid in list(run.cluster.groups[GROUP].members):
                cands.append((0.06, {"a": "Evict", "k": mid}))
            if run.clock.next_due() is not None:
                # time passes freely only when nothing is waiting for an answer
                busy = bool(pend) or bool(run.cluster.groups[GROUP].held_joins)
                cands.append((0.5 if busy else 4, {"a": "Advance"}))
            if not cands:
                break
            tot = sum(w for w, _ in cands)
            r = rng.random() * tot
            for w, e in cands:
                r -= w
                if r <= 0:
                    break
            run.do(e)
        return {"seed": seed, "length": length, "steps": run.steps}
    finally:
        run.restore()
