"""A simulated Kafka cluster behind vh.sim.SimNet.

It does only what Kafka documents (DESIGN.md appendix B) and nothing spontaneously: every
answer is produced when the scheduler says so.  Requests are parsed and responses encoded
with vh.kwire (independent of afkak, cross-checked against spec/Wire.tla).
"""
from . import kwire
from .kwire import (API_VERSIONS, FETCH, FIND_COORDINATOR, HEARTBEAT, JOIN_GROUP, LEAVE_GROUP, LIST_OFFSETS,
                    METADATA, OFFSET_COMMIT, OFFSET_FETCH, PRODUCE, SYNC_GROUP)

NOT_LEADER = 6
UNKNOWN_TP = 3
OFFSET_OUT_OF_RANGE = 1
LEADER_NOT_AVAILABLE = 5
COORD_NOT_AVAILABLE = 15
NOT_COORDINATOR = 16
ILLEGAL_GENERATION = 22
UNKNOWN_MEMBER = 25
REBALANCE_IN_PROGRESS = 27


class Partition:
    def __init__(self, leader):
        self.leader = leader          # node id or None
        self.log = []                 # stored entries: (offset, message dict)  [wrappers kept as stored]
        self.start = 0                # log start offset
        self.next = 0                 # next offset to assign
        self.replicas = []


class Broker:
    def __init__(self, node, host, port):
        self.node, self.host, self.port = node, host, port
        self.up = True
        self.listed = True     # member of the cluster (appears in metadata)


class Pending:
    """A request a broker connection has received and not answered yet."""

    def __init__(self, conn, raw, req):
        self.conn, self.raw, self.req = conn, raw, req
        self.answered = False
        self.held = False


class Conn:
    """Broker side of one accepted connection."""

    def __init__(self, cluster, transport, broker):
        self.cluster, self.tr, self.broker = cluster, transport, broker
        self.inbox = []      # Pending, arrival order
        self.bad = []        # frames that did not parse

    def pump(self):
        """Move complete frames the client wrote into the inbox (parsed). Returns the new Pendings."""
        new = []
        for fr in self.tr.take_frames():
            try:
                req = kwire.parse_request(fr)
            except kwire.WireError as e:
                self.bad.append((fr, str(e)))
                self.cluster.wire_errors.append((self.broker.node, fr.hex(), str(e)))
                continue
            p = Pending(self, fr, req)
            self.inbox.append(p)
            new.append(p)
            self.cluster.received.append(p)
        return new

    def oldest(self):
        for p in self.inbox:
            if not p.answered and not p.held:
                return p
        return None

    def send(self, pending, body_bytes):
        pending.answered = True
        import struct
        self.tr.deliver(struct.pack(">i", len(body_bytes)) + body_bytes)


HOLD = object()      # the coordinator keeps the request unanswered for now (a join or sync waiting for the others)


class GroupState:
    """A group coordinator that does what Kafka documents for consumer groups and nothing spontaneously: joins are
    held until the scheduler completes the rebalance (`complete_join`); members that have not re-joined by then are
    removed, as are members the scheduler evicts (session timeout)."""

    def __init__(self):
        self.generation = 0
        self.state = "Empty"          # Empty | PreparingRebalance | AwaitingSync | Stable
        self.members = {}             # member id -> subscription metadata (bytes) of the current generation
        self.leader = None
        self.joined = {}              # member id -> metadata, for the generation being formed
        self.held_joins = []          # (Pending, member id)
        self.held_syncs = []          # (Pending, member id)
        self.assignment = {}          # member id -> assignment bytes (current generation)
        self.next_member = 1
        self.ever = set()

    # -- called by Cluster.respond
    def error_response(self, api, code):
        if api == JOIN_GROUP:
            return {"error": code, "generation": -1, "protocol": "", "leader": "", "member": "", "members": []}
        if api == SYNC_GROUP:
            return {"error": code, "assignment": b""}
        return {"error": code}

    def check(self, generation, member):
        if member not in self.members:
            return UNKNOWN_MEMBER
        if generation != self.generation:
            return ILLEGAL_GENERATION
        if self.state == "PreparingRebalance":
            return REBALANCE_IN_PROGRESS
        return 0

    def handle(self, api, b):
        if api == JOIN_GROUP:
            m = b["member"]
            if m and m not in self.members and m not in self.joined:
                return self.error_response(api, UNKNOWN_MEMBER)
            if not m:
                m = "m%d" % self.next_member
                self.next_member += 1
                self.ever.add(m)
            meta = b["protocols"][0]["metadata"] if b["protocols"] else b""
            self.protocol = b["protocols"][0]["name"] if b["protocols"] else ""
            self.joined[m] = meta
            self.state = "PreparingRebalance"
            self._hold_for = m
            return HOLD
        if api == SYNC_GROUP:
            err = UNKNOWN_MEMBER if b["member"] not in self.members else \
                ILLEGAL_GENERATION if b["generation"] != self.generation else \
                REBALANCE_IN_PROGRESS if self.state == "PreparingRebalance" else 0
            if err:
                return self.error_response(api, err)
            if b["member"] == self.leader:
                self.assignment = {a["member"]: a["assignment"] for a in b["assignments"]}
                self.state = "Stable"
                self._release_syncs = True
                return {"error": 0, "assignment": self.assignment.get(b["member"], b"") or b""}
            if self.state == "Stable":
                return {"error": 0, "assignment": self.assignment.get(b["member"], b"") or b""}
            self._hold_for = b["member"]
            return HOLD
        if api == HEARTBEAT:
            return {"error": self.check(b["generation"], b["member"])}
        if api == LEAVE_GROUP:
            if b["member"] in self.members:
                self.remove(b["member"])
                return {"error": 0}
            self.joined.pop(b["member"], None)
            return {"error": UNKNOWN_MEMBER}
        raise kwire.WireError("group api %d" % api)

    def remove(self, member):
        self.members.pop(member, None)
        self.assignment.pop(member, None)
        self.joined.pop(member, None)
        if self.members or self.joined:
            self.state = "PreparingRebalance"
        else:
            self.state = "Empty"

    def complete_join(self):
        """the rebalance timeout expires / everybody has re-joined: the new generation is formed from those who joined.
        Returns [(Pending, response)] for the held joins (a held join of a member that has left meanwhile is refused)."""
        if not self.held_joins:
            return []
        out = []
        if not self.joined:
            for p, m in self.held_joins:
                out.append((p, self.error_response(JOIN_GROUP, UNKNOWN_MEMBER)))
            self.held_joins = []
            return out
        self.generation += 1
        self.members = dict(self.joined)
        self.joined = {}
        self.assignment = {}
        ids = sorted(self.members)
        self.leader = ids[0]
        self.state = "AwaitingSync"
        for p, m in self.held_joins:
            if m not in self.members:
                out.append((p, self.error_response(JOIN_GROUP, UNKNOWN_MEMBER)))
                continue
            lst = [{"member": x, "metadata": self.members[x]} for x in ids] if m == self.leader else []
            out.append((p, {"error": 0, "generation": self.generation, "protocol": getattr(self, "protocol", ""), "leader": self.leader,
                            "member": m, "members": lst}))
        self.held_joins = []
        return out


class Cluster:
    def __init__(self, net):
        self.net = net
        self.brokers = {}
        self.topics = {}            # name -> {partition: Partition}
        self.coordinator = {}       # group -> node id
        self.offsets = {}           # (group, topic, partition) -> committed offset
        self.commits = []           # log of commit requests seen: dicts
        self.conns = {}             # transport -> Conn
        self.received = []          # every Pending ever parsed, arrival order
        self.wire_errors = []
        self.api_versions = None    # None: broker does not implement ApiVersions (silent); else [(key,min,max)]
        self.groups = {}

    # ---- topology
    def add_broker(self, node, host, port):
        self.brokers[node] = Broker(node, host, port)

    def add_topic(self, name, leaders):
        self.topics[name] = {p: Partition(l) for p, l in leaders.items()}

    def broker_at(self, host, port):
        for b in self.brokers.values():
            if b.up and b.host == host and b.port == port:
                return b
        return None

    def autopilot_connects(self):
        """Accept pending connection attempts to addresses where a broker is up, refuse the others."""
        did = False
        for a in list(self.net.pending_attempts()):
            b = self.broker_at(a.host, a.port)
            if b is None:
                a.refuse()
            else:
                tr = a.accept()
                self.conns[tr] = Conn(self, tr, b)
            did = True
        return did

    def pump_all(self):
        new = []
        for tr, c in list(self.conns.items()):
            if tr.connected:
                new.extend(c.pump())
        return new

    def drop_broker_conns(self, node):
        for tr, c in list(self.conns.items()):
            if c.broker.node == node and tr.connected:
                tr.drop(clean=False)

    def reap(self):
        """Finish connections the client asked to close."""
        did = False
        for tr in list(self.conns):
            if tr.connected and tr.disconnecting:
                tr.drop(clean=True)
                did = True
        return did

    # ---- answering
    def answer(self, p, override=None):
        """Compute and send the response for Pending p from the cluster's state.
        override: None, or int error code applied to every partition / the whole response,
        or a callable(api, body, resp) -> resp."""
        r = p.req
        api, ver, b = r["api"], r["ver"], r["body"]
        node = p.conn.broker.node
        resp = self.respond(api, ver, b, node, override)
        if resp is None:          # no response for this request (acks=0, or ApiVersions not implemented)
            p.answered = True
            return None
        if resp is HOLD:
            g = self.groups[b["group"]]
            p.held = True
            (g.held_joins if api == JOIN_GROUP else g.held_syncs).append((p, g._hold_for))
            return None
        data = kwire.enc_response(api, ver, r["corr"], resp)
        p.conn.send(p, data)
        if api == SYNC_GROUP and resp["error"] == 0:
            g = self.groups[b["group"]]
            if getattr(g, "_release_syncs", False):
                g._release_syncs = False
                for hp, m in g.held_syncs:
                    if hp.conn.tr.connected:
                        hp.held = False
                        hp.conn.send(hp, kwire.enc_response(SYNC_GROUP, 0, hp.req["corr"],
                                                            {"error": 0, "assignment": g.assignment.get(m, b"") or b""}))
                g.held_syncs = []
        return resp

    def complete_join(self, group):
        """scheduler event: the coordinator stops waiting and answers the joins it holds"""
        g = self.groups[group]
        n = 0
        for p, resp in g.complete_join():
            p.held = False
            if p.conn.tr.connected:
                p.conn.send(p, kwire.enc_response(JOIN_GROUP, 0, p.req["corr"], resp))
                n += 1
            else:
                p.answered = True
        return n

    def respond(self, api, ver, b, node, override):
        code = override if isinstance(override, int) else None
        if api == API_VERSIONS:
            if self.api_versions is None:
                return None
            return {"error": code or 0, "versions": [] if code else list(self.api_versions)}
        if api == METADATA:
            names = b["topics"] or sorted(self.topics)
            topics = []
            for t in names:
                if t not in self.topics:
                    topics.append({"error": UNKNOWN_TP, "topic": t, "partitions": []})
                    continue
                if code:
                    topics.append({"error": code, "topic": t, "partitions": []})
                    continue
                parts = []
                for pid, part in sorted(self.topics[t].items()):
                    ld = part.leader if part.leader is not None and self.brokers[part.leader].up and self.brokers[part.leader].listed else None
                    parts.append({"error": 0 if ld is not None else LEADER_NOT_AVAILABLE, "partition": pid,
                                  "leader": -1 if ld is None else ld, "replicas": [ld] if ld else [], "isr": [ld] if ld else []})
                topics.append({"error": 0, "topic": t, "partitions": parts})
            return {"brokers": [{"node": x.node, "host": x.host, "port": x.port} for x in self.brokers.values() if x.up and x.listed],
                    "topics": topics}
        if api == PRODUCE:
            out = []
            for t in b["topics"]:
                ps = []
                for p in t["partitions"]:
                    part = self.topics.get(t["topic"], {}).get(p["partition"])
                    if code is not None:
                        err, base = code, -1
                    elif part is None:
                        err, base = UNKNOWN_TP, -1
                    elif part.leader != node:
                        err, base = NOT_LEADER, -1
                    else:
                        err, base = 0, part.next
                        self.append(part, p["messages"])
                    ps.append({"partition": p["partition"], "error": err, "offset": base, "log_append_time": -1})
                out.append({"topic": t["topic"], "partitions": ps})
            if b["acks"] == 0:
                return None
            return {"throttle": 0, "topics": out}
        if api == FETCH:
            out = []
            for t in b["topics"]:
                ps = []
                for p in t["partitions"]:
                    part = self.topics.get(t["topic"], {}).get(p["partition"])
                    if code is not None:
                        ps.append({"partition": p["partition"], "error": code, "hwm": -1, "records": b""})
                    elif part is None:
                        ps.append({"partition": p["partition"], "error": UNKNOWN_TP, "hwm": -1, "records": b""})
                    elif part.leader != node:
                        ps.append({"partition": p["partition"], "error": NOT_LEADER, "hwm": -1, "records": b""})
                    elif p["offset"] < part.start or p["offset"] > part.next:
                        ps.append({"partition": p["partition"], "error": OFFSET_OUT_OF_RANGE, "hwm": part.next, "records": b""})
                    else:
                        ps.append({"partition": p["partition"], "error": 0, "hwm": part.next,
                                   "records": self.read(part, p["offset"], p["max_bytes"], ver)})
                out.append({"topic": t["topic"], "partitions": ps})
            return {"throttle": 0, "topics": out}
        if api == LIST_OFFSETS:
            out = []
            for t in b["topics"]:
                ps = []
                for p in t["partitions"]:
                    part = self.topics.get(t["topic"], {}).get(p["partition"])
                    if code is not None:
                        ps.append({"partition": p["partition"], "error": code, "offsets": []})
                    elif part is None:
                        ps.append({"partition": p["partition"], "error": UNKNOWN_TP, "offsets": []})
                    elif part.leader != node:
                        ps.append({"partition": p["partition"], "error": NOT_LEADER, "offsets": []})
                    else:
                        ps.append({"partition": p["partition"], "error": 0,
                                   "offsets": [part.start if p["time"] == -2 else part.next]})
                out.append({"topic": t["topic"], "partitions": ps})
            return {"topics": out}
        if api == FIND_COORDINATOR:
            c = self.coordinator.get(b["group"])
            if code or c is None or not self.brokers[c].up:
                return {"error": code or COORD_NOT_AVAILABLE, "node": -1, "host": "", "port": -1}
            x = self.brokers[c]
            return {"error": 0, "node": x.node, "host": x.host, "port": x.port}
        if api == OFFSET_COMMIT:
            out = []
            for t in b["topics"]:
                ps = []
                for p in t["partitions"]:
                    err = code if code is not None else self.group_check(b["group"], node, b["generation"], b["member"])
                    self.commits.append({"group": b["group"], "topic": t["topic"], "partition": p["partition"],
                                         "offset": p["offset"], "generation": b["generation"], "member": b["member"],
                                         "error": err, "node": node})
                    if err == 0:
                        self.offsets[(b["group"], t["topic"], p["partition"])] = p["offset"]
                    ps.append({"partition": p["partition"], "error": err})
                out.append({"topic": t["topic"], "partitions": ps})
            return {"topics": out}
        if api == OFFSET_FETCH:
            out = []
            for t in b["topics"]:
                ps = []
                for pid in t["partitions"]:
                    if code is not None:
                        ps.append({"partition": pid, "offset": -1, "metadata": b"", "error": code})
                    elif self.coordinator.get(b["group"]) != node:
                        ps.append({"partition": pid, "offset": -1, "metadata": b"", "error": NOT_COORDINATOR})
                    else:
                        ps.append({"partition": pid, "offset": self.offsets.get((b["group"], t["topic"], pid), -1),
                                   "metadata": b"", "error": 0})
                out.append({"topic": t["topic"], "partitions": ps})
            return {"topics": out}
        if api in (JOIN_GROUP, SYNC_GROUP, HEARTBEAT, LEAVE_GROUP):
            return self.group_api(api, b, node, code)
        raise kwire.WireError("api %d" % api)

    def group_check(self, group, node, generation, member):
        if self.coordinator.get(group) != node:
            return NOT_COORDINATOR
        g = self.groups.get(group)
        if g is None or generation == -1 and member == "":
            return 0          # simple consumer (no group management)
        return g.check(generation, member)

    def group_api(self, api, b, node, code):
        g = self.groups.get(b["group"])
        if g is None:
            raise kwire.WireError("group coordinator not configured")
        if code:
            return g.error_response(api, code)
        if self.coordinator.get(b["group"]) != node:
            return g.error_response(api, NOT_COORDINATOR)
        return g.handle(api, b)

    # ---- logs
    def append(self, part, entries):
        """Append the logical messages of a produce record set (offsets are assigned by the broker)."""
        for off, m in kwire.flatten(entries):
            part.log.append((part.next, m))
            part.next += 1

    def store(self, part, entries):
        """Store raw entries (possibly wrappers) exactly as given: used to lay out test logs."""
        for off, m in entries:
            part.log.append((off, m))
            flat = kwire.flatten([(off, m)])
            part.next = max(part.next, (flat[-1][0] if flat else off) + 1)

    def read(self, part, offset, max_bytes, ver):
        """Stored entries from the one containing `offset` on, cut at max_bytes (partial tail allowed)."""
        chosen = []
        for off, m in part.log:
            flat = kwire.flatten([(off, m)])
            last = flat[-1][0] if flat else off
            if last >= offset:
                if ver == 0 and m["magic"] == 1:
                    m2 = self.down_convert(off, m)
                    chosen.append((m2[0], m2[1]))
                else:
                    chosen.append((off, m))
        data = kwire.enc_message_set(chosen)
        return data[:max(0, max_bytes)]

    @staticmethod
    def down_convert(off, m):
        if (m["attrs"] & 7) == 0:
            return off, {"magic": 0, "attrs": 0, "key": m["key"], "value": m["value"]}
        inner = kwire.flatten([(off, m)])
        inner0 = [(o, {"magic": 0, "attrs": 0, "key": im["key"], "value": im["value"]}) for o, im in inner]
        return off, kwire.wrapper(0, inner0)
