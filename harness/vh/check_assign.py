"""Check C15: Assignment.tla against afkak's _ConsumerProtocol (leader-side assignment,
member-side decoding)."""
import itertools
import json
import random
import re
import struct

from . import tlaval, tlc
from .report import run_check

_VEC = re.compile(r'<<\s*"VEC"')


def mname(i):
    return "member-%02d" % i


def tname(i):
    return "topic%d" % i


def independent_decode(data):
    """ConsumerProtocol Assignment, decoded from the protocol definition (not with afkak):
    version:int16 [topic:string [partition:int32]] user_data:bytes"""
    (ver, n), cur = struct.unpack(">hi", data[:6]), 6
    out = {}
    for _ in range(n):
        (ln,) = struct.unpack(">h", data[cur:cur + 2])
        cur += 2
        topic = data[cur:cur + ln].decode("utf-8")
        cur += ln
        (k,) = struct.unpack(">i", data[cur:cur + 4])
        cur += 4
        out[topic] = list(struct.unpack(">%di" % k, data[cur:cur + 4 * k]))
        cur += 4 * k
    (ul,) = struct.unpack(">i", data[cur:cur + 4])
    cur += 4 + max(ul, 0)
    if cur != len(data):
        raise ValueError("trailing bytes in assignment")
    return ver, out


def run_real(ms, subs, parts, order):
    """generate_assignments on the member list in `order`, then decode each member's share.
    Returns (result as list over ms of sorted [topic, partition] lists, decode_mismatch)."""
    from afkak._group import _ConsumerProtocol
    from afkak.common import _JoinGroupResponseMember
    from afkak.kafkacodec import KafkaCodec

    proto = _ConsumerProtocol()
    members = []
    for m in order:
        md = KafkaCodec.encode_join_group_protocol_metadata(0, [tname(t) for t in subs[m]], b"")
        members.append(_JoinGroupResponseMember(mname(m), md))
    tp = {tname(t): list(ps) for t, ps in parts.items()}
    enc = proto.generate_assignments(members, tp)
    by_member = {}
    mismatch = None
    for a in enc:
        dec = proto.decode_assignment(a.member_metadata)
        ver, ind = independent_decode(a.member_metadata)
        mine = {t: list(p) for t, p in dec.items()}
        if mine != ind or ver != 0:
            mismatch = (a.member_id, mine, ind)
        if a.member_id in by_member:
            mismatch = (a.member_id, "assigned twice in the sync request", None)
        by_member[a.member_id] = [[int(t[5:]), p] for t, pl in dec.items() for p in pl]
    res = [by_member.get(mname(m), []) for m in ms]
    extra = set(by_member) - {mname(m) for m in ms}
    if extra:
        mismatch = (sorted(extra), "assignment for unknown member", None)
    return res, mismatch


def make_trace(ms, subs, parts, max_perms, rng):
    ms = sorted(ms)
    topics = sorted(parts)
    perms = list(itertools.permutations(ms))
    if len(perms) > max_perms:
        perms = [perms[0]] + rng.sample(perms[1:], max_perms - 1)
    runs, mism = [], None
    for order in perms:
        r, mm = run_real(ms, subs, parts, order)
        runs.append(r)
        mism = mism or mm
    return {"ms": ms, "subs": [sorted(subs[m]) for m in ms], "topics": topics,
            "parts": [sorted(parts[t]) for t in topics], "runs": runs}, mism


def main(prop, tier, seed, replay_file):
    if replay_file:
        import json as _json
        with open(replay_file) as _f:
            _rp = _json.load(_f)
        if str(_rp.get("family", "")).startswith("group["):
            from . import check_group
            return check_group.main(prop, tier, seed, replay_file)
    def body(chk):
        thorough = tier == "thorough"
        rng = random.Random(seed)
        wd = tlc.workdir("C15-%s" % tier)
        defs = ["PartSetsDef == {{}, {0}, {0, 1}, {0, 1, 2}, {0, 2, 5}}"]
        cfg = ["INIT Init", "NEXT Next", "CONSTANTS", "  Members = {1, 2, 3}", "  TopicSet = {1, 2}",
               "  PartSets <- PartSetsDef", "INVARIANT C15_exactly_once", "INVARIANT C15_only_subscribed",
               "INVARIANT C15_balanced", "CONSTRAINT Emit", "CHECK_DEADLOCK FALSE"]
        tla, cfgp = tlc.write_mc(wd, "MC_Assign", "Assignment", defs, cfg)
        rc, text, wall = tlc.run(tla, cfgp, wd, workers=16)
        res = tlc.MCResult(rc, text, wall).check()
        chk.add_model("Assignment", res, {"Members": 3, "Topics": 2, "PartSets": "{}, {0}, {0,1}, {0,1,2}, {0,2,5}"},
                      "every member set, subscription map and partition map in the domain; clauses checked on the specified algorithm")
        chk.exhaustive = True
        # every input of the model becomes a vector executed on the real code, for every order of the member list
        inputs = {}
        pos = 0
        while True:
            m = _VEC.search(text, pos)
            if not m:
                break
            tup = tlc._balanced_after(text, m.start())
            pos = m.start() + len(tup)
            v = tlaval.parse(tup)
            ms = tuple(sorted(v[1]))
            subs_v, parts_v = v[2], v[3]

            def fn(x, keys):
                # TLC prints functions over 1..n as tuples
                if isinstance(x, tuple):
                    return {k: x[k - 1] for k in keys}
                return dict(x)
            subs = {k: sorted(s) for k, s in fn(subs_v, ms).items()}
            parts = {k: sorted(s) for k, s in fn(parts_v, (1, 2)).items()}
            inputs[(ms, json.dumps(subs, sort_keys=True), json.dumps(parts, sort_keys=True))] = (ms, subs, parts)
        if len(inputs) != res.distinct:
            raise tlc.MachineryError("expected %d inputs from TLC, parsed %d" % (res.distinct, len(inputs)))
        traces, meta = [], []
        keys = sorted(inputs)
        if not thorough:
            rng.shuffle(keys)
            keys = keys[:1500]
        for k in keys:
            ms, subs, parts = inputs[k]
            used = set(t for m in ms for t in subs[m])
            tr, mm = make_trace(ms, {m: subs[m] for m in ms}, {t: parts[t] for t in used}, 6, rng)
            traces.append(tr)
            meta.append(("TLC vector", mm))
        # beyond the domain: more members, more topics, non-contiguous ids, seeded
        for k in range(1500 if thorough else 250):
            r = random.Random(seed * 7907 + k)
            nm = r.randint(1, 6)
            ms = r.sample(range(1, 10), nm)
            nt = r.randint(1, 4)
            topics = r.sample(range(1, 8), nt)
            style = r.random()
            if style < 0.35:
                common = r.sample(topics, r.randint(1, nt))
                subs = {m: list(common) for m in ms}
            else:
                subs = {m: r.sample(topics, r.randint(0, nt)) for m in ms}
                if not any(subs.values()):
                    subs[ms[0]] = [topics[0]]
            used = set(t for m in ms for t in subs[m])
            parts = {t: sorted(r.sample(range(0, 12), r.randint(0, 7))) for t in used}
            tr, mm = make_trace(ms, subs, parts, 8, r)
            traces.append(tr)
            meta.append(("random seed=%d" % (seed * 7907 + k), mm))
        tcfg = ["SPECIFICATION TSpec", "CONSTANTS", "  Members = {}", "  TopicSet = {}", "  PartSets = {}",
                "CONSTRAINT Report", "CHECK_DEADLOCK FALSE"]
        results, _ = tlc.validate_traces(wd, "Assignment_Trace", traces, [], tcfg)
        chk.add_traces(len(traces), sum(len(t["runs"]) for t in traces))
        chk.sample(traces[0])
        chk.sample(traces[-1])
        for tr, (src, mm), r in zip(traces, meta, results):
            if mm is not None:
                chk.violation("C15.decode_own", "decode", "member %s: decode_assignment gives %s, an independent parse of the "
                              "leader's encoded assignment gives %s (%s)" % (mm[0], mm[1], mm[2], src),
                              {"family": "assignment", "trace": tr})
            first = {}
            for c, l in r["viol"]:
                first.setdefault(c, l)
            for c, l in first.items():
                chk.count(c)
                ident = len({json.dumps(s) for s in tr["subs"]}) == 1
                sig = "members=%d topics=%d %s" % (len(tr["ms"]), len(tr["topics"]), "identical" if ident else "mixed")
                chk.violation(c, sig, "%s fails for members=%s subs=%s topics=%s parts=%s: result[order %d]=%s (%s)" %
                              (c, tr["ms"], tr["subs"], tr["topics"], tr["parts"], l, tr["runs"][l - 1], src),
                              {"family": "assignment", "trace": tr, "line": l})
            if r["drift"] and not r["viol"]:
                chk.add_drift(len(r["drift"]), {"input": tr["ms"], "at": r["drift"][0]})
        chk.assumptions += ["member and topic names are compared in the implementation's (lexicographic) order; the harness uses names whose lexicographic order is their numeric order",
                            "inputs beyond 3 members / 2 topics / 5 partition sets are sampled (seeded), not exhaustive"]
        # what the assignment function is given matters as much as what it computes: the member that leads looks the
        # partitions up afresh in every generation (group family, Group.tla)
        from . import check_group
        check_group.leader_partitions(chk, tier, seed)

    run_check(prop, tier, seed, body)
